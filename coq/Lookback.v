(* The lookback a query is evaluated with (C02, C07, C10): engine.New's default,
   compatibilityEngine.getLookbackDelta's choice between the query options and
   the engine's configuration, and what a pushed-down part of a distributed
   query runs with on a remote engine (execution.go, RemoteExecution: the
   sub-query is created with QueryOpts{LookbackDelta: the query's}). Times in
   milliseconds. *)
From Coq Require Import List ZArith NArith Bool Lia.
Import ListNotations.
Open Scope Z_scope.

Definition default_lookback : Z := 300000.

(* engine.New: a configured lookback of zero means the default *)
Definition engine_lookback (configured : Z) : Z :=
  if configured =? 0 then default_lookback else configured.

(* the options of a query: None = no options (nil), Some l = options whose
   LookbackDelta is l (0 when the caller left it unset) *)
Definition query_lookback (configured : Z) (opts : option Z) : Z :=
  match opts with
  | Some l => if 0 <? l then l else engine_lookback configured
  | None => engine_lookback configured
  end.

(* a part of the query pushed down to a remote engine configured with
   [remote_configured]: created there with options carrying the query's lookback *)
Definition remote_lookback (remote_configured configured : Z) (opts : option Z) : Z :=
  query_lookback remote_configured (Some (query_lookback configured opts)).

(* ---- facts -------------------------------------------------------------- *)

Lemma engine_lookback_pos configured : 0 <= configured -> 0 < engine_lookback configured.
Proof.
  intros H. unfold engine_lookback, default_lookback.
  destruct (Z.eqb_spec configured 0); lia.
Qed.

Lemma query_lookback_pos configured opts : 0 <= configured -> 0 < query_lookback configured opts.
Proof.
  intros H. unfold query_lookback. destruct opts as [l|].
  - destruct (Z.ltb_spec 0 l); [lia | apply engine_lookback_pos; exact H].
  - apply engine_lookback_pos; exact H.
Qed.

(* options that set a lookback win; options that leave it unset, and no options,
   mean the engine's *)
Lemma query_lookback_rule configured opts :
  query_lookback configured opts =
  match opts with
  | Some l => if 0 <? l then l else engine_lookback configured
  | None => engine_lookback configured
  end.
Proof. reflexivity. Qed.

Lemma query_lookback_unset configured : query_lookback configured (Some 0) = query_lookback configured None.
Proof. reflexivity. Qed.

Lemma query_lookback_set configured l : 0 < l -> query_lookback configured (Some l) = l.
Proof. intros H. unfold query_lookback. destruct (Z.ltb_spec 0 l); lia. Qed.

(* a pushed-down part runs with the lookback of the query, whatever the remote
   engine is configured with *)
Theorem remote_lookback_is_the_querys remote_configured configured opts :
  0 <= configured -> remote_lookback remote_configured configured opts = query_lookback configured opts.
Proof.
  intros H. unfold remote_lookback. apply query_lookback_set. apply query_lookback_pos; exact H.
Qed.

(* ... also through several levels of distribution *)
Fixpoint nested_remote_lookback (remotes : list Z) (configured : Z) (opts : option Z) : Z :=
  match remotes with
  | [] => query_lookback configured opts
  | r :: rest => query_lookback r (Some (nested_remote_lookback rest configured opts))
  end.

Theorem nested_remote_lookback_is_the_querys remotes configured opts :
  0 <= configured -> nested_remote_lookback remotes configured opts = query_lookback configured opts.
Proof.
  intros H. induction remotes as [|r rest IH]; simpl; [reflexivity|].
  rewrite IH. apply query_lookback_set. apply query_lookback_pos; exact H.
Qed.

(* ---- correspondence ------------------------------------------------------ *)

(* one observation: the engine (or a distributed engine over remote engines
   configured with lc_remote) evaluates a vector selector at a known time; the
   storage that received the Select saw the range start [time - observed] *)
Record lb_case := mkLB { lc_id : N; lc_configured : Z; lc_opts : option Z; lc_dist : bool;
                         lc_remote : Z; lc_observed : Z }.

Definition lb_case_ok (c : lb_case) : bool :=
  lc_observed c =? (if lc_dist c then remote_lookback (lc_remote c) (lc_configured c) (lc_opts c)
                    else query_lookback (lc_configured c) (lc_opts c)).

Definition lb_mismatches (cs : list lb_case) : list N :=
  map lc_id (filter (fun c => negb (lb_case_ok c)) cs).

Example lookback_example :
  query_lookback 0 None = 300000 /\ query_lookback 60000 (Some 0) = 60000 /\
  query_lookback 60000 (Some 10000) = 10000 /\ remote_lookback 300000 60000 (Some 0) = 60000 /\
  lb_mismatches [mkLB 1 0 (Some 0) true 45000 300000; mkLB 2 0 (Some 0) true 45000 45000] = [2%N].
Proof. vm_compute. repeat split; reflexivity. Qed.
