(* The step grid of a query and the way the generator operators cut it into
   batches: query.Options.NumSteps and the currentStep/numSteps loops of
   vectorSelector.Next, matrixSelector.Next, numberLiteralSelector.Next
   ([selector_batches]) and of noArgFunctionOperator.Next and
   stepInvariantOperator.Next ([counter_batches]). *)
From Coq Require Import List ZArith NArith Bool Lia.
From Verif Require Import Base.
Import ListNotations.
Open Scope Z_scope.

Definition total_steps (w : window) : Z :=
  if w_step w =? 0 then 1 else (w_end w - w_start w) / w_step w + 1.

(* query.Options.NumSteps with StepsBatch = B *)
Definition num_steps (B : nat) (w : window) : Z := Z.min (Z.of_nat B) (total_steps w).

Definition grid_at (w : window) (k : nat) : Z := w_start w + Z.of_nat k * w_step w.

(* The evaluation timestamps of the query: start, start+step, ... <= end. *)
Definition grid (w : window) : list Z :=
  map (grid_at w) (seq 0 (Z.to_nat (total_steps w))).

(* inner loop: up to [cnt] steps from [t], while t <= e *)
Fixpoint emit (st e : Z) (cnt : nat) (t : Z) : list Z :=
  match cnt with
  | O => []
  | S c => if t <=? e then t :: emit st e c (t + st) else []
  end.

(* the operator's own step: instant queries advance by 1 so that they terminate *)
Definition adv_step (w : window) : Z := if w_step w =? 0 then 1 else w_step w.

Fixpoint sel_batches (B : nat) (w : window) (fuel : nat) (cur : Z) : list (list Z) :=
  match fuel with
  | O => []
  | S f =>
      if cur >? w_end w then []
      else
        let n := Z.to_nat (num_steps B w) in
        emit (w_step w) (w_end w) n cur :: sel_batches B w f (cur + adv_step w * Z.of_nat n)
  end.

Definition selector_batches (B : nat) (w : window) : list (list Z) :=
  sel_batches B w (S (Z.to_nat (total_steps w))) (w_start w).

(* noArgFunctionOperator / stepInvariantOperator: up to B steps per batch, the
   cursor advancing by max(step,1) per emitted vector *)
Fixpoint cnt_batches (B : nat) (w : window) (fuel : nat) (cur : Z) : list (list Z) :=
  match fuel with
  | O => []
  | S f =>
      if cur >? w_end w then []
      else
        let b := emit (adv_step w) (w_end w) B cur in
        b :: cnt_batches B w f (cur + adv_step w * Z.of_nat (length b))
  end.

Definition counter_batches (B : nat) (w : window) : list (list Z) :=
  cnt_batches B w (S (Z.to_nat (total_steps w))) (w_start w).

(* ---------------------------------------------------------------------- *)

Lemma sel_batches_S B w f cur :
  sel_batches B w (S f) cur =
  if cur >? w_end w then []
  else emit (w_step w) (w_end w) (Z.to_nat (num_steps B w)) cur
       :: sel_batches B w f (cur + adv_step w * Z.of_nat (Z.to_nat (num_steps B w))).
Proof. reflexivity. Qed.

Lemma cnt_batches_S B w f cur :
  cnt_batches B w (S f) cur =
  if cur >? w_end w then []
  else emit (adv_step w) (w_end w) B cur
       :: cnt_batches B w f (cur + adv_step w * Z.of_nat (length (emit (adv_step w) (w_end w) B cur))).
Proof. reflexivity. Qed.

Section Proofs.
  Variable B : nat.
  Variable w : window.
  Hypothesis HB : (0 < B)%nat.
  Hypothesis Hw : wf_window w.

  Let s := w_start w.
  Let e := w_end w.
  Let st := w_step w.

  Lemma total_steps_pos : 1 <= total_steps w.
  Proof.
    unfold total_steps. destruct Hw as [Hse [Hst _]].
    destruct (Z.eqb_spec (w_step w) 0); [lia|].
    assert (0 <= (w_end w - w_start w) / w_step w) by (apply Z.div_pos; lia). lia.
  Qed.

  (* a grid point lies within the window iff its index is below total_steps *)
  Lemma le_end_iff (k : nat) :
    0 < st -> (s + Z.of_nat k * st <= e <-> Z.of_nat k < total_steps w).
  Proof.
    intros Hst. unfold total_steps. fold st s e.
    destruct (Z.eqb_spec st 0); [lia|].
    split; intros H.
    - assert (Z.of_nat k <= (e - s) / st).
      { apply Z.div_le_lower_bound; [lia|]. rewrite Z.mul_comm. lia. }
      lia.
    - assert (Hk : Z.of_nat k <= (e - s) / st) by lia.
      assert (st * ((e - s) / st) <= e - s) by (apply Z.mul_div_le; lia).
      assert (Z.of_nat k * st <= ((e - s) / st) * st) by (apply Z.mul_le_mono_nonneg_r; lia).
      lia.
  Qed.

  Lemma emit_spec_pos : 0 < st -> forall cnt k,
    emit st e cnt (s + Z.of_nat k * st) =
    map (grid_at w) (seq k (Nat.min cnt (Z.to_nat (total_steps w) - k))).
  Proof.
    intros Hst. induction cnt as [|c IH]; intros k; [reflexivity|].
    simpl emit. destruct (Z.leb_spec (s + Z.of_nat k * st) e) as [Hle|Hgt].
    - apply le_end_iff in Hle; [|assumption].
      assert (Hk : (k < Z.to_nat (total_steps w))%nat) by lia.
      replace (Nat.min (S c) (Z.to_nat (total_steps w) - k))
        with (S (Nat.min c (Z.to_nat (total_steps w) - S k))) by lia.
      simpl. f_equal.
      replace (s + Z.of_nat k * st + st) with (s + Z.of_nat (S k) * st) by lia.
      apply IH.
    - assert (~ Z.of_nat k < total_steps w) by (intros Hc; apply le_end_iff in Hc; lia).
      replace (Z.to_nat (total_steps w) - k)%nat with 0%nat by lia.
      rewrite Nat.min_0_r. reflexivity.
  Qed.

  Lemma num_steps_pos : 1 <= num_steps B w.
  Proof. unfold num_steps. pose proof total_steps_pos. lia. Qed.

  Lemma sel_batches_spec_pos : 0 < st -> forall fuel k,
    (Z.to_nat (total_steps w) - k <= fuel)%nat ->
    concat (sel_batches B w fuel (s + Z.of_nat k * st)) =
    map (grid_at w) (seq k (Z.to_nat (total_steps w) - k)).
  Proof.
    intros Hst. induction fuel as [|f IH]; intros k Hf.
    - replace (Z.to_nat (total_steps w) - k)%nat with 0%nat by lia. reflexivity.
    - simpl sel_batches. fold e.
      destruct (Z.gtb_spec (s + Z.of_nat k * st) e) as [Hgt|Hle].
      + assert (~ Z.of_nat k < total_steps w) by (intros Hc; apply le_end_iff in Hc; lia).
        replace (Z.to_nat (total_steps w) - k)%nat with 0%nat by lia. reflexivity.
      + apply le_end_iff in Hle; [|assumption].
        set (n := Z.to_nat (num_steps B w)).
        assert (Hn : (1 <= n)%nat) by (pose proof num_steps_pos; lia).
        assert (Hn2 : (n <= Z.to_nat (total_steps w))%nat) by (unfold n, num_steps; lia).
        simpl concat. fold st. rewrite emit_spec_pos by assumption.
        unfold adv_step. fold st. destruct (Z.eqb_spec st 0); [lia|].
        replace (s + Z.of_nat k * st + st * Z.of_nat n) with (s + Z.of_nat (k + n) * st) by lia.
        rewrite IH by lia.
        rewrite <- map_app. f_equal.
        set (T := Z.to_nat (total_steps w)) in *.
        destruct (le_lt_dec n (T - k)) as [Hle2|Hgt2].
        * rewrite Nat.min_l by assumption.
          rewrite <- seq_app. f_equal. lia.
        * rewrite Nat.min_r by lia.
          replace (T - (k + n))%nat with 0%nat by lia.
          simpl. rewrite app_nil_r. reflexivity.
  Qed.

  Lemma grid_instant : st = 0 -> grid w = [s].
  Proof.
    intros H0. unfold grid, total_steps. fold st. rewrite H0. simpl.
    unfold grid_at. fold s st. rewrite H0. f_equal. lia.
  Qed.

  Theorem selector_batches_cover_grid : concat (selector_batches B w) = grid w.
  Proof.
    destruct Hw as [Hse [Hst Hinst]]. fold s e st in Hse, Hst, Hinst.
    destruct (Z.eq_dec st 0) as [H0|Hn0].
    - (* instant *)
      rewrite grid_instant by assumption.
      unfold selector_batches, total_steps. fold st. rewrite H0. simpl Z.to_nat.
      assert (Hes : e = s) by auto.
      assert (Hns : num_steps B w = 1).
      { unfold num_steps, total_steps. fold st. rewrite H0. simpl. lia. }
      change (S (Pos.to_nat 1)) with 2%nat.
      rewrite sel_batches_S. fold e s st. rewrite Hns.
      destruct (Z.gtb_spec s e); [lia|].
      change (Z.to_nat 1) with 1%nat.
      rewrite sel_batches_S. fold e.
      assert (Hadv : adv_step w = 1) by (unfold adv_step; fold st; rewrite H0; reflexivity).
      rewrite Hadv.
      destruct (Z.gtb_spec (s + 1 * Z.of_nat 1) e); [|lia].
      simpl emit. destruct (Z.leb_spec s e); [|lia]. reflexivity.
    - assert (Hpos : 0 < st) by lia.
      unfold selector_batches, grid.
      pose proof (sel_batches_spec_pos Hpos (S (Z.to_nat (total_steps w))) 0) as H.
      simpl Z.of_nat in H. rewrite Z.mul_0_l, Z.add_0_r in H.
      rewrite Nat.sub_0_r in H. apply H. lia.
  Qed.

  Lemma emit_length st' e' cnt t : (length (emit st' e' cnt t) <= cnt)%nat.
  Proof.
    revert t. induction cnt as [|c IH]; intros t; simpl; [lia|].
    destruct (t <=? e'); simpl; [specialize (IH (t + st')); lia|lia].
  Qed.

  Lemma emit_nonempty st' e' cnt t : (0 < cnt)%nat -> t <= e' -> emit st' e' cnt t <> [].
  Proof.
    intros Hc Ht. destruct cnt as [|c]; [lia|]. simpl.
    destruct (Z.leb_spec t e'); [discriminate|lia].
  Qed.

  Theorem selector_batches_sized :
    Forall (fun b => b <> [] /\ (length b <= B)%nat) (selector_batches B w).
  Proof.
    unfold selector_batches. generalize (S (Z.to_nat (total_steps w))) as fuel.
    generalize (w_start w) as cur.
    intros cur fuel. revert cur. induction fuel as [|f IH]; intros cur; simpl; [constructor|].
    destruct (Z.gtb_spec cur (w_end w)); [constructor|].
    constructor; [|apply IH]. split.
    - apply emit_nonempty; [|lia]. pose proof num_steps_pos. lia.
    - etransitivity; [apply emit_length|]. unfold num_steps. lia.
  Qed.

  (* strictly increasing timestamps for range queries *)
  Theorem grid_increasing : 0 < st -> forall i j,
    (i < j < length (grid w))%nat -> nth i (grid w) 0 < nth j (grid w) 0.
  Proof.
    intros Hst i j [Hij Hj]. unfold grid in *. rewrite map_length, seq_length in Hj.
    rewrite !(nth_indep _ 0 (grid_at w 0)) by (rewrite map_length, seq_length; lia).
    rewrite !map_nth, !seq_nth by lia. unfold grid_at. fold st s. simpl. nia.
  Qed.

  Theorem grid_within : Forall (fun t => s <= t <= e) (grid w).
  Proof.
    destruct Hw as [Hse [Hst Hinst]]. fold s e st in Hse, Hst, Hinst.
    destruct (Z.eq_dec st 0) as [H0|Hn0].
    - rewrite grid_instant by assumption. constructor; [|constructor]. rewrite (Hinst H0). lia.
    - unfold grid. apply Forall_forall. intros t Hin. apply in_map_iff in Hin.
      destruct Hin as [k [Hk Hin]]. apply in_seq in Hin. subst t. unfold grid_at. fold s st.
      assert (Hlt : Z.of_nat k < total_steps w) by lia.
      apply le_end_iff in Hlt; [|lia]. nia.
  Qed.

  (* the counter-style operators produce the same chunks *)
  Lemma emit_adv_spec_pos : 0 < st -> forall cnt k,
    emit (adv_step w) e cnt (s + Z.of_nat k * st) =
    map (grid_at w) (seq k (Nat.min cnt (Z.to_nat (total_steps w) - k))).
  Proof.
    intros Hst cnt k. unfold adv_step. fold st. destruct (Z.eqb_spec st 0); [lia|].
    apply emit_spec_pos. assumption.
  Qed.

  Lemma cnt_batches_spec_pos : 0 < st -> forall fuel k,
    (Z.to_nat (total_steps w) - k <= fuel)%nat ->
    concat (cnt_batches B w fuel (s + Z.of_nat k * st)) =
    map (grid_at w) (seq k (Z.to_nat (total_steps w) - k)).
  Proof.
    intros Hst. induction fuel as [|f IH]; intros k Hf.
    - replace (Z.to_nat (total_steps w) - k)%nat with 0%nat by lia. reflexivity.
    - simpl cnt_batches. fold e.
      destruct (Z.gtb_spec (s + Z.of_nat k * st) e) as [Hgt|Hle].
      + assert (~ Z.of_nat k < total_steps w) by (intros Hc; apply le_end_iff in Hc; lia).
        replace (Z.to_nat (total_steps w) - k)%nat with 0%nat by lia. reflexivity.
      + apply le_end_iff in Hle; [|assumption].
        simpl concat. rewrite emit_adv_spec_pos by assumption.
        rewrite map_length, seq_length.
        set (T := Z.to_nat (total_steps w)) in *.
        set (m := Nat.min B (T - k)).
        assert (Hm1 : (1 <= m)%nat) by lia.
        unfold adv_step. fold st. destruct (Z.eqb_spec st 0); [lia|].
        replace (s + Z.of_nat k * st + st * Z.of_nat m) with (s + Z.of_nat (k + m) * st) by lia.
        rewrite IH by lia.
        rewrite <- map_app. f_equal.
        rewrite <- seq_app. f_equal. lia.
  Qed.

  Theorem counter_batches_cover_grid : concat (counter_batches B w) = grid w.
  Proof.
    destruct Hw as [Hse [Hst Hinst]]. fold s e st in Hse, Hst, Hinst.
    destruct (Z.eq_dec st 0) as [H0|Hn0].
    - rewrite grid_instant by assumption.
      unfold counter_batches, total_steps. fold st. rewrite H0. simpl Z.to_nat.
      assert (Hes : e = s) by auto.
      change (S (Pos.to_nat 1)) with 2%nat.
      assert (Hadv : adv_step w = 1) by (unfold adv_step; fold st; rewrite H0; reflexivity).
      assert (Hb : emit (adv_step w) e B s = [s]).
      { rewrite Hadv. destruct B as [|B']; [lia|]. simpl emit.
        destruct (Z.leb_spec s e); [|lia]. f_equal.
        destruct B'; [reflexivity|]. simpl. destruct (Z.leb_spec (s + 1) e); [lia|reflexivity]. }
      rewrite cnt_batches_S. fold e s. rewrite Hb.
      destruct (Z.gtb_spec s e); [lia|].
      rewrite cnt_batches_S. fold e. rewrite Hadv. simpl length.
      destruct (Z.gtb_spec (s + 1 * Z.of_nat 1) e); [|lia]. reflexivity.
    - assert (Hpos : 0 < st) by lia.
      unfold counter_batches, grid.
      pose proof (cnt_batches_spec_pos Hpos (S (Z.to_nat (total_steps w))) 0) as H.
      simpl Z.of_nat in H. rewrite Z.mul_0_l, Z.add_0_r in H.
      rewrite Nat.sub_0_r in H. apply H. lia.
  Qed.
End Proofs.

Example grid_example :
  grid (mkW 1000 1090 30) = [1000; 1030; 1060; 1090] /\
  selector_batches 3 (mkW 1000 1090 30) = [[1000; 1030; 1060]; [1090]] /\
  counter_batches 3 (mkW 1000 1090 30) = [[1000; 1030; 1060]; [1090]] /\
  selector_batches 10 (mkW 5 5 0) = [[5]].
Proof. repeat split; vm_compute; reflexivity. Qed.
