(* histogram_quantile (execution/function/quantile.go: bucketQuantile, coalesceBuckets,
   ensureMonotonic; execution/function/histogram.go: histogramOperator), generic in the
   number type. BucketCases.v instantiates it on primitive floats and compares it with
   the real operator on every run; BucketProofs.v instantiates it on the rationals.
   An upper bound is a number or +Inf ([None]); NaN as an upper bound (le="NaN") is
   outside the model. No Floats import here. *)
From Coq Require Import List ZArith NArith Bool Arith.
From Verif Require Import Base RangeArith Agg Bin.
Import ListNotations.

Section BucketQuantile.
  Variable V : Type.
  Variable o : ops V.
  Variables pinf ninf : V.       (* the values for q > 1 and q < 0 *)

  Record bucket := mkB { ub : option V; cnt : V }.

  Definition ub_ltb (a b : option V) : bool :=
    match a, b with
    | Some x, Some y => ltb o x y
    | Some _, None => true
    | None, _ => false
    end.

  Definition ub_eqb (a b : option V) : bool :=
    match a, b with
    | Some x, Some y => eqb o x y
    | None, None => true
    | _, _ => false
    end.

  (* sort.Sort(buckets) by upper bound, as a stable insertion sort (buckets with equal
     bounds are merged next, so their order only matters for the rounding of their sum) *)
  Fixpoint insert_b (x : bucket) (l : list bucket) : list bucket :=
    match l with
    | [] => [x]
    | y :: r => if ub_ltb (ub y) (ub x) then y :: insert_b x r else x :: y :: r
    end.

  Definition sort_b (l : list bucket) : list bucket := fold_right insert_b [] l.

  (* coalesceBuckets *)
  Fixpoint coalesce_from (last : bucket) (rest : list bucket) : list bucket :=
    match rest with
    | [] => [last]
    | b :: r => if ub_eqb (ub b) (ub last) then coalesce_from (mkB (ub last) (add o (cnt last) (cnt b))) r
                else last :: coalesce_from b r
    end.

  Definition coalesce (l : list bucket) : list bucket :=
    match l with [] => [] | b :: r => coalesce_from b r end.

  (* ensureMonotonic *)
  Fixpoint mono_from (mx : V) (rest : list bucket) : list bucket :=
    match rest with
    | [] => []
    | b :: r => if ltb o mx (cnt b) then b :: mono_from (cnt b) r
                else if ltb o (cnt b) mx then mkB (ub b) mx :: mono_from mx r
                else b :: mono_from mx r
    end.

  Definition ensure_monotonic (l : list bucket) : list bucket :=
    match l with [] => [] | b :: r => b :: mono_from (cnt b) r end.

  (* sort.Search(n, f): the smallest index in [0, n) at which f holds, by bisection *)
  Fixpoint bsearch (f : nat -> bool) (fuel i j : nat) : nat :=
    match fuel with
    | O => i
    | S fu => if Nat.ltb i j
              then let h := Nat.div (i + j) 2 in
                   if f h then bsearch f fu i h else bsearch f fu (S h) j
              else i
    end.

  Definition dflt : bucket := mkB None (zero o).
  Definition ubv (b : bucket) : V := match ub b with Some v => v | None => pinf end.

  (* the rank's bucket by bisection, and the interpolation inside it; [m]: the sorted, merged,
     monotone buckets *)
  Definition bq_core (q : V) (m : list bucket) : V :=
    let n := length m in
    if Nat.ltb n 2 then nanv o
    else
      let observations := cnt (last m dflt) in
      if eqb o observations (zero o) then nanv o
      else
        let rank := mul o q observations in
        let b := bsearch (fun i => leb o rank (cnt (nth i m dflt))) n 0 (n - 1) in
        if Nat.eqb b (n - 1) then ubv (nth (n - 2) m dflt)
        else if Nat.eqb b 0 && (match ub (nth 0 m dflt) with Some u => leb o u (zero o) | None => false end)
             then ubv (nth 0 m dflt)
        else
          let bend := ubv (nth b m dflt) in
          let c := cnt (nth b m dflt) in
          match b with
          | O => add o (zero o) (mul o (sub o bend (zero o)) (div o rank c))
          | S b' =>
              let bstart := ubv (nth b' m dflt) in
              let c0 := cnt (nth b' m dflt) in
              add o bstart (mul o (sub o bend bstart) (div o (sub o rank c0) (sub o c c0)))
          end.

  Definition bucket_quantile (q : V) (bs : list bucket) : V :=
    if isnan o q then nanv o
    else if ltb o q (zero o) then ninf
    else if ltb o (one o) q then pinf
    else
      let s := sort_b bs in
      match ub (last s dflt), s with
      | _, [] => nanv o
      | Some _, _ => nanv o                       (* the highest bucket is not +Inf *)
      | None, _ => bq_core q (ensure_monotonic (coalesce s))
      end.

  (* ---- the operator ---------------------------------------------------------------------- *)

  (* loadSeries: a series with a parsable le label belongs to the output series named by its other
     labels without the metric name; output series are numbered by first occurrence *)
  (* [ins]: the input series' labels and upper bound (None: no valid le label) *)
  Fixpoint load (le : N) (ins : list (labels * option (option V))) (outs : list labels)
    : list labels * list (option (nat * option V)) :=
    match ins with
    | [] => (outs, [])
    | (l, None) :: r => let '(outs', idx) := load le r outs in (outs', None :: idx)
    | (l, Some u) :: r =>
        let l' := del_name (ldel l le) in
        match Agg.index_of l' outs with
        | Some g => let '(outs', idx) := load le r outs in (outs', Some (g, u) :: idx)
        | None => let '(outs', idx) := load le r (outs ++ [l']) in (outs', Some (length outs, u) :: idx)
        end
    end.

  (* the buckets of output series g at one step, in the order of the input vector *)
  Definition step_buckets (idx : list (option (nat * option V))) (g : nat) (vec : list (nat * V)) : list bucket :=
    flat_map (fun iv => match nth (fst iv) idx None with
                        | Some (g', u) => if Nat.eqb g' g then [mkB u (snd iv)] else []
                        | None => []
                        end) vec.

  (* processInputSeries, one step; [q]: the scalar argument at this step, if it has a sample *)
  Definition hist_step (nout : nat) (idx : list (option (nat * option V))) (q : option V) (vec : list (nat * V)) : list (nat * V) :=
    flat_map (fun g => match step_buckets idx g vec with
                       | [] => []
                       | bs => [(g, match q with Some qv => bucket_quantile qv bs | None => nanv o end)]
                       end) (seq 0 nout).
End BucketQuantile.
