(* Comparison functions used by the generated cases_*.v files: each evaluates
   the model on the inputs recorded by the harness and returns the identifiers
   of the cases on which the model's output differs from the implementation's
   observed output. *)
From Coq Require Import List String ZArith NArith Bool.
From Verif Require Import Ast Generated Plan.
Import ListNotations.

Record plan_case := mkPC {
  pc_id : N; pc_expr : expr; pc_range : bool; pc_ty : vtype;
  pc_on : outcome; pc_on_false : nat; pc_on_true : nat;       (* fallback enabled *)
  pc_off : outcome; pc_off_false : nat; pc_off_true : nat }.  (* fallback disabled *)

Definition plan_obs_ok (fb : bool) (c : plan_case) (o : outcome) (df dt : nat) : bool :=
  outcome_eqb (new_query fb (pc_range c) (pc_ty c) (pc_expr c)) o
  && (let d := counter_delta fb (pc_range c) (pc_ty c) (pc_expr c) in
      Nat.eqb (fst d) df && Nat.eqb (snd d) dt).

Definition plan_case_ok (c : plan_case) : bool :=
  plan_obs_ok true c (pc_on c) (pc_on_false c) (pc_on_true c)
  && plan_obs_ok false c (pc_off c) (pc_off_false c) (pc_off_true c).

Definition plan_mismatches (cs : list plan_case) : list N :=
  map pc_id (filter (fun c => negb (plan_case_ok c)) cs).

(* ---- C20 / C08: histories of creations on one engine instance ----------- *)

Record histplan_case := mkHPC {
  hpc_id : N; hpc_fallback : bool; hpc_creations : list creation; hpc_outcomes : list outcome;
  hpc_false : nat; hpc_true : nat }.       (* absolute counter values at the end *)

Fixpoint outcomes_eqb (a b : list outcome) : bool :=
  match a, b with
  | [], [] => true
  | x :: r, y :: r' => outcome_eqb x y && outcomes_eqb r r'
  | _, _ => false
  end.

Definition histplan_case_ok (c : histplan_case) : bool :=
  let '(s, os) := run_creations (hpc_fallback c) (mkES 0 0) (hpc_creations c) in
  outcomes_eqb os (hpc_outcomes c) && Nat.eqb (es_false s) (hpc_false c) && Nat.eqb (es_true s) (hpc_true c).

Definition histplan_mismatches (cs : list histplan_case) : list N :=
  map hpc_id (filter (fun c => negb (histplan_case_ok c)) cs).

(* ---- C02: selector correspondence ------------------------------------- *)
From Verif Require Import Base Grid Select Shard Exec.
Open Scope Z_scope.

Record sel_case := mkSelCase {
  sc_id : N; sc_shards : nat; sc_window : window; sc_lb : Z; sc_off : Z; sc_pinned : bool;
  sc_series : list (list sample);           (* the selected series, storage order *)
  sc_expected : list (list (Z * Z)) }.      (* observed points per series *)

Definition sel_model (c : sel_case) : list (list (Z * Z)) :=
  let n := List.length (sc_series c) in
  let run w := sharded_selector (sc_lb c) (sc_lb c) (sc_off c) (sc_shards c) (sc_series c)
                                (selector_batches steps_batch w) in
  if sc_pinned c then
    matrix_of n (step_invariant_run steps_batch (sc_window c) (run (pinned_window (sc_window c))))
  else matrix_of n (run (sc_window c)).

Definition zz_eqb (a b : Z * Z) : bool := Z.eqb (fst a) (fst b) && Z.eqb (snd a) (snd b).

Fixpoint list_eqb {A} (eqb : A -> A -> bool) (l1 l2 : list A) : bool :=
  match l1, l2 with
  | [], [] => true
  | x :: r1, y :: r2 => eqb x y && list_eqb eqb r1 r2
  | _, _ => false
  end.

Definition sel_case_ok (c : sel_case) : bool :=
  list_eqb (list_eqb zz_eqb) (sel_model c) (sc_expected c).

Definition sel_mismatches (cs : list sel_case) : list N :=
  map sc_id (filter (fun c => negb (sel_case_ok c)) cs).

(* ---- C03: range-window correspondence ---------------------------------- *)
From Verif Require Import Range.

Record rng_case := mkRngCase {
  rc_id : N; rc_window : window; rc_range : Z; rc_off : Z; rc_pinned : bool;
  rc_kind : nat;                            (* 0 = count_over_time, 1 = last_over_time *)
  rc_series : list (list sample);
  rc_expected : list (list (Z * Z)) }.      (* per series: (t, count) or (t, value bits) *)

Definition rng_value (kind : nat) (w : list point) : option Z :=
  match rev w with
  | [] => None
  | (_, v) :: _ => Some (match kind with O => Z.of_nat (List.length w) | _ => v end)
  end.

Definition rng_series_model (c : rng_case) (ss : list sample) : list (Z * Z) :=
  let w := rc_window c in
  if rc_pinned c then
    (* step-invariant: one evaluation on [start,start], replicated over the grid *)
    let '(_, ws) := ms_scan (rc_range c) (rc_off c) (w_step w) (ms_reset ss (rc_range c)) [w_start w] in
    match ws with
    | w0 :: _ => match rng_value (rc_kind c) w0 with
                 | Some v => map (fun t => (t, v)) (grid w)
                 | None => []
                 end
    | [] => []
    end
  else
    let '(_, ws) := ms_scan (rc_range c) (rc_off c) (w_step w) (ms_reset ss (rc_range c)) (grid w) in
    flat_map (fun tw => match rng_value (rc_kind c) (snd tw) with Some v => [(fst tw, v)] | None => [] end)
             (combine (grid w) ws).

Definition rng_case_ok (c : rng_case) : bool :=
  list_eqb (list_eqb zz_eqb) (map (rng_series_model c) (rc_series c)) (rc_expected c).

Definition rng_mismatches (cs : list rng_case) : list N :=
  map rc_id (filter (fun c => negb (rng_case_ok c)) cs).

(* ---- C16: select hints correspondence ---------------------------------- *)
From Verif Require Import Hints HintsProofs.
From Verif Require Pool.

Record hint_case := mkHC { hc_id : N; hc_expr : expr; hc_window : window; hc_lb : Z; hc_observed : list sel }.

Definition subsetb {A} (eqb : A -> A -> bool) (l1 l2 : list A) : bool :=
  forallb (fun x => existsb (eqb x) l2) l1.

Definition nset_eqb (a b : list N) : bool := subsetb N.eqb a b && subsetb N.eqb b a.

(* matchers as a multiset: the recorded selects are collected as a set keyed by the matchers in
   canonical order, so two selects that differ only in the order of their matchers are one *)
Definition mset_eqb (a b : list matcher) : bool :=
  Nat.eqb (List.length a) (List.length b) && subsetb matcher_eqb a b && subsetb matcher_eqb b a.

Definition sel_eqb (a b : sel) : bool :=
  mset_eqb (s_ms a) (s_ms b) && Z.eqb (s_start a) (s_start b) && Z.eqb (s_end a) (s_end b)
  && Z.eqb (s_step a) (s_step b) && Z.eqb (s_range a) (s_range b) && String.eqb (s_func a) (s_func b)
  && nset_eqb (s_grp a) (s_grp b) && Bool.eqb (s_by a) (s_by b).

Definition hint_case_ok (c : hint_case) : bool :=
  let m := eng_selects (hc_window c) (hc_lb c) (mkH "" [] false) (hc_expr c) in
  subsetb sel_eqb m (hc_observed c) && subsetb sel_eqb (hc_observed c) m
  && mat_calls_unary (hc_expr c)
  (* the selector pool's sharing is transparent for this query (Pool.pool_transparent) *)
  && Pool.keys_determine m.

Definition hint_mismatches (cs : list hint_case) : list N :=
  map hc_id (filter (fun c => negb (hint_case_ok c)) cs).

(* ---- C09 / C10: AST rewriting correspondence --------------------------- *)
From Verif Require Import Opt.

Definition optZ_eqb (a b : option Z) : bool :=
  match a, b with Some x, Some y => Z.eqb x y | None, None => true | _, _ => false end.

Definition vsel_eqb (a b : vsel) : bool :=
  mset_eqb (vms a) (vms b) && Z.eqb (vorig a) (vorig b) && Z.eqb (voff a) (voff b) && optZ_eqb (vat a) (vat b)
  && match vflt a, vflt b with Some x, Some y => mset_eqb x y | None, None => true | _, _ => false end.

(* equality of expressions up to the order of matchers within a selector *)
Fixpoint expr_eqb (a b : expr) {struct a} : bool :=
  match a, b with
  | ENum x, ENum y => Z.eqb x y
  | EStr, EStr => true
  | EVec v, EVec v' => vsel_eqb v v'
  | EMat v r, EMat v' r' => vsel_eqb v v' && Z.eqb r r'
  | ESubq x, ESubq y => expr_eqb x y
  | ECall f xs, ECall g ys =>
      String.eqb f g &&
      (fix go (l1 l2 : list expr) : bool :=
         match l1, l2 with
         | [], [] => true
         | x :: r1, y :: r2 => expr_eqb x y && go r1 r2
         | _, _ => false
         end) xs ys
  | EAgg op w g p x, EAgg op' w' g' p' y =>
      String.eqb op op' && Bool.eqb w w' && list_eqb N.eqb g g' &&
      match p, p' with Some q, Some q' => expr_eqb q q' | None, None => true | _, _ => false end && expr_eqb x y
  | EBin op b c on ml incl l r, EBin op' b' c' on' ml' incl' l' r' =>
      String.eqb op op' && Bool.eqb b b' && card_eqb c c' && Bool.eqb on on' && list_eqb N.eqb ml ml' &&
      list_eqb N.eqb incl incl' && expr_eqb l l' && expr_eqb r r'
  | EUn n x, EUn n' y => Bool.eqb n n' && expr_eqb x y
  | EParen x, EParen y => expr_eqb x y
  | EStepInv x, EStepInv y => expr_eqb x y
  | ECoalesce xs, ECoalesce ys =>
      (fix go (l1 l2 : list expr) : bool :=
         match l1, l2 with
         | [], [] => true
         | x :: r1, y :: r2 => expr_eqb x y && go r1 r2
         | _, _ => false
         end) xs ys
  | ERemote n x, ERemote n' y => N.eqb n n' && expr_eqb x y
  | _, _ => false
  end.

Record opt_case := mkOC {
  oc_id : N; oc_before : expr;
  oc_sort : expr; oc_merge : expr; oc_propagate : expr;   (* each optimizer alone *)
  oc_default : expr }.                                     (* sort then merge *)

Definition opt_case_ok (c : opt_case) : bool :=
  expr_eqb (opt_sort (oc_before c)) (oc_sort c)
  && expr_eqb (opt_merge (oc_before c)) (oc_merge c)
  && expr_eqb (opt_propagate (oc_before c)) (oc_propagate c)
  && expr_eqb (opt_merge (opt_sort (oc_before c))) (oc_default c).

Definition opt_mismatches (cs : list opt_case) : list N :=
  map oc_id (filter (fun c => negb (opt_case_ok c)) cs).

(* ---- C10: distributed plan correspondence ------------------------------ *)
From Verif Require Import Dist.

(* remote sub-queries are compared after removing what only preprocessing adds *)
Fixpoint strip (e : expr) : expr :=
  match e with
  | EStepInv x => strip x
  | EVec v => EVec (mkVS (vms v) (vorig v) 0 (vat v) (vflt v) (vsyn v))
  | EMat v r => EMat (mkVS (vms v) (vorig v) 0 (vat v) (vflt v) (vsyn v)) r
  | ESubq x => ESubq (strip x)
  | ECall f xs => ECall f (map strip xs)
  | EAgg op w g p x => EAgg op w g (match p with Some q => Some (strip q) | None => None end) (strip x)
  | EBin op b c on ml incl l r => EBin op b c on ml incl (strip l) (strip r)
  | EUn n x => EUn n (strip x)
  | EParen x => EParen (strip x)
  | ECoalesce xs => ECoalesce (map strip xs)
  | ERemote n x => ERemote n (strip x)
  | _ => e
  end.

Fixpoint strip_remotes (e : expr) : expr :=
  match e with
  | ERemote n x => ERemote n (strip x)
  | ECoalesce xs => ECoalesce (map strip_remotes xs)
  | ECall f xs => ECall f (map strip_remotes xs)
  | EAgg op w g p x => EAgg op w g p (strip_remotes x)
  | EBin op b c on ml incl l r => EBin op b c on ml incl (strip_remotes l) (strip_remotes r)
  | EUn n x => EUn n (strip_remotes x)
  | EParen x => EParen (strip_remotes x)
  | EStepInv x => EStepInv (strip_remotes x)
  | ESubq x => ESubq (strip_remotes x)
  | _ => e
  end.

Record dist_case := mkDC { dc_id : N; dc_engines : nat; dc_before : expr; dc_after : expr }.

Definition dist_case_ok (c : dist_case) : bool :=
  expr_eqb (strip_remotes (opt_distribute (dc_engines c) (dc_before c))) (strip_remotes (dc_after c)).

Definition dist_mismatches (cs : list dist_case) : list N :=
  map dc_id (filter (fun c => negb (dist_case_ok c)) cs).

(* ---- C13 / C15 / C17: lifecycle correspondence -------------------------- *)
From Verif Require Import Life.

Record life_case := mkLC {
  lc_id : N; lc_fired : bool; lc_fault : fault; lc_selects : nat; lc_series : nat; lc_steps : nat;
  lc_ok : bool;                          (* the implementation returned a value *)
  lc_queriers : list (nat * nat) }.      (* per querier: opens, closes at the moment Exec returned *)

Definition life_model_status (c : life_case) : status :=
  let sels := map (fun i => (i, lc_series c)) (seq 0 (S (lc_selects c))) in
  status_of (exec_prog true sels (lc_steps c))
            (fun j => if lc_fired c && Nat.eqb j 1 then lc_fault c else FNone).

Definition life_case_ok (c : life_case) : bool :=
  Bool.eqb (lc_ok c) (match life_model_status c with SOk => true | _ => false end)
  && forallb (fun oc => Nat.eqb (fst oc) 1 && Nat.eqb (snd oc) 1) (lc_queriers c).

Definition life_mismatches (cs : list life_case) : list N :=
  map lc_id (filter (fun c => negb (life_case_ok c)) cs).

(* ---- C04: grouping correspondence (count by/without over a selector) ---- *)
From Verif Require Import Agg.

Record agg_case := mkAC {
  ac_id : N; ac_window : window; ac_lb : Z; ac_off : Z; ac_without : bool; ac_grouping : list N;
  ac_series : list (labels * list sample);              (* the selected series, storage order *)
  ac_expected : list (labels * list (Z * Z)) }.        (* output label set -> (t, count) *)

Definition count_table := aggregate unit nat (fun _ => 0%nat) (fun a _ => S a).

Definition agg_model (c : agg_case) : list (labels * list (Z * Z)) :=
  let keys := map (fun s => group_labels (ac_without c) (ac_grouping c) (fst s)) (ac_series c) in
  let '(inputs, groups) := assign_groups keys [] in
  let ng := List.length groups in
  let per_step t :=
    let sv := select_step (ac_lb c) (ac_off c) (map snd (ac_series c)) t in
    count_table inputs tt (repeat (mkAcc nat false 0%nat) ng) (map (fun i => (i, tt)) (svIDs sv)) in
  let steps := map (fun t => (t, per_step t)) (grid (ac_window c)) in
  map (fun gi => (nth gi groups [],
                  flat_map (fun ts => let a := nth gi (snd ts) (mkAcc nat false 0%nat) in
                                      if a_has nat a then [(fst ts, Z.of_nat (a_st nat a))] else []) steps))
      (seq 0 ng).

Definition lp_eqb (a b : labels * list (Z * Z)) : bool :=
  labels_eqb (fst a) (fst b) && list_eqb zz_eqb (snd a) (snd b).

Definition agg_case_ok (c : agg_case) : bool :=
  let m := filter (fun x => negb (match snd x with [] => true | _ => false end)) (agg_model c) in
  subsetb lp_eqb m (ac_expected c) && subsetb lp_eqb (ac_expected c) m.

Definition agg_mismatches (cs : list agg_case) : list N :=
  map ac_id (filter (fun c => negb (agg_case_ok c)) cs).

(* ---- C16: the selector pool's sharing decisions vs Pool.key_eqb --------------------------- *)

Record pool_case := mkPoolCase { plc_id : N; plc_a : sel; plc_b : sel; plc_shared : bool }.

Definition pool_case_ok (c : pool_case) : bool := Bool.eqb (Pool.key_eqb (plc_a c) (plc_b c)) (plc_shared c).

Definition pool_mismatches (cs : list pool_case) : list N :=
  map plc_id (filter (fun c => negb (pool_case_ok c)) cs).
