(* Comparison functions used by the generated cases_*.v files: each evaluates
   the model on the inputs recorded by the harness and returns the identifiers
   of the cases on which the model's output differs from the implementation's
   observed output. *)
From Coq Require Import List String ZArith NArith Bool.
From Verif Require Import Ast Generated Plan.
Import ListNotations.

Record plan_case := mkPC {
  pc_id : N; pc_expr : expr; pc_range : bool; pc_ty : vtype;
  pc_on : outcome; pc_on_false : nat; pc_on_true : nat;       (* fallback enabled *)
  pc_off : outcome; pc_off_false : nat; pc_off_true : nat }.  (* fallback disabled *)

Definition plan_obs_ok (fb : bool) (c : plan_case) (o : outcome) (df dt : nat) : bool :=
  outcome_eqb (new_query fb (pc_range c) (pc_ty c) (pc_expr c)) o
  && (let d := counter_delta fb (pc_range c) (pc_ty c) (pc_expr c) in
      Nat.eqb (fst d) df && Nat.eqb (snd d) dt).

Definition plan_case_ok (c : plan_case) : bool :=
  plan_obs_ok true c (pc_on c) (pc_on_false c) (pc_on_true c)
  && plan_obs_ok false c (pc_off c) (pc_off_false c) (pc_off_true c).

Definition plan_mismatches (cs : list plan_case) : list N :=
  map pc_id (filter (fun c => negb (plan_case_ok c)) cs).
