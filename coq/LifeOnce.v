(* C17, "exactly once": on top of the balance of LifeProofs.v (as many Close
   as Open events per querier whenever the process survives), a querier of the
   execution skeleton is opened at most once, is never closed before it is
   opened nor more often than it was opened at any moment of the execution, and
   is opened (hence closed) exactly once when the execution succeeds. *)
From Coq Require Import List Arith Bool Lia.
From Verif Require Import Life LifeProofs.
Import ListNotations.

(* the queriers a program may open, in program order *)
Fixpoint qids (p : prog) : list nat :=
  match p with
  | Seq a b => qids a ++ qids b
  | WithQuerier id body => id :: qids body
  | Go _ a | Recover a => qids a
  | _ => []
  end.

Definition occ (id : nat) (l : list nat) : nat := count_occ Nat.eq_dec l id.

Lemma occ_app id l1 l2 : occ id (l1 ++ l2) = occ id l1 + occ id l2.
Proof. unfold occ. apply count_occ_app. Qed.

Lemma occ_cons id x l : occ id (x :: l) = (if Nat.eqb x id then 1 else 0) + occ id l.
Proof.
  unfold occ. simpl. destruct (Nat.eq_dec x id) as [E|E].
  - subst. rewrite Nat.eqb_refl. reflexivity.
  - apply Nat.eqb_neq in E. rewrite E. reflexivity.
Qed.

(* a querier is opened at most as often as the program names it ... *)
Lemma open_le_qids : forall p faults k k' t s id,
  run p faults k = (k', t, s) -> count_open id t <= occ id (qids p).
Proof.
  induction p as [|site|a IHa b IHb|qid body IH|r a IH|a IH]; intros faults k k' t s id H; simpl in H.
  - inversion H; simpl; lia.
  - inversion H; simpl; lia.
  - destruct (run a faults k) as [[k1 t1] s1] eqn:Ea. simpl qids. rewrite occ_app.
    pose proof (IHa _ _ _ _ _ id Ea) as Ha.
    destruct s1.
    + destruct (run b faults k1) as [[k2 t2] s2] eqn:Eb. inversion H; subst.
      rewrite count_open_app. pose proof (IHb _ _ _ _ _ id Eb). lia.
    + inversion H; subst. lia.
    + inversion H; subst. lia.
    + inversion H; subst. lia.
  - destruct (run body faults k) as [[k1 t1] s1] eqn:Eb. simpl qids. rewrite occ_cons.
    pose proof (IH _ _ _ _ _ id Eb) as Hb.
    destruct s1; inversion H; subst; simpl; rewrite ?count_open_app; simpl;
      destruct (Nat.eqb qid id); lia.
  - destruct (run a faults k) as [[k1 t1] s1] eqn:Ea. inversion H; subst. simpl. eapply IH; eauto.
  - destruct (run a faults k) as [[k1 t1] s1] eqn:Ea. inversion H; subst. simpl. eapply IH; eauto.
Qed.

(* ... and exactly as often when the execution succeeds *)
Lemma open_eq_qids_ok : forall p faults k k' t id,
  run p faults k = (k', t, SOk) -> count_open id t = occ id (qids p).
Proof.
  induction p as [|site|a IHa b IHb|qid body IH|r a IH|a IH]; intros faults k k' t id H; simpl in H.
  - inversion H; reflexivity.
  - inversion H; reflexivity.
  - destruct (run a faults k) as [[k1 t1] s1] eqn:Ea. simpl qids. rewrite occ_app.
    destruct s1; try (inversion H; fail).
    destruct (run b faults k1) as [[k2 t2] s2] eqn:Eb. inversion H; subst.
    rewrite count_open_app, (IHa _ _ _ _ id Ea), (IHb _ _ _ _ id Eb). reflexivity.
  - destruct (run body faults k) as [[k1 t1] s1] eqn:Eb. simpl qids. rewrite occ_cons.
    destruct s1; inversion H; subst.
    simpl. rewrite count_open_app. simpl. rewrite (IH _ _ _ _ id Eb). destruct (Nat.eqb qid id); lia.
  - destruct (run a faults k) as [[k1 t1] s1] eqn:Ea.
    destruct s1; try destruct r; inversion H; subst; simpl; eapply IH; eauto.
  - destruct (run a faults k) as [[k1 t1] s1] eqn:Ea.
    destruct s1; inversion H; subst; simpl; eapply IH; eauto.
Qed.

(* at no moment of the execution has a querier been closed more often than opened:
   no Close before the Open, no second Close of one Open *)
Definition never_ahead (t : list tev) : Prop :=
  forall n id, count_close id (firstn n t) <= count_open id (firstn n t).

Lemma never_ahead_app t1 t2 : never_ahead t1 -> never_ahead t2 -> never_ahead (t1 ++ t2).
Proof.
  intros H1 H2 n id. rewrite firstn_app, count_open_app, count_close_app.
  pose proof (H1 n id). pose proof (H2 (n - length t1) id). lia.
Qed.

Lemma never_ahead_nil : never_ahead [].
Proof. intros n id. destruct n; simpl; lia. Qed.

Lemma never_ahead_call site : never_ahead [TCall site].
Proof. intros n id. destruct n as [|n]; simpl; [lia|]. destruct n; simpl; lia. Qed.

Lemma never_ahead_open qid t : never_ahead t -> never_ahead (TOpen qid :: t).
Proof.
  intros H n id. destruct n as [|n]; simpl; [lia|]. pose proof (H n id). lia.
Qed.

Lemma never_ahead_bracket qid t : never_ahead t -> never_ahead (TOpen qid :: t ++ [TClose qid]).
Proof.
  intros H n id. destruct n as [|n]; [simpl; lia|].
  change (firstn (S n) (TOpen qid :: t ++ [TClose qid])) with (TOpen qid :: firstn n (t ++ [TClose qid])).
  rewrite firstn_app. simpl count_open. simpl count_close.
  rewrite count_open_app, count_close_app. pose proof (H n id) as Hn.
  destruct (n - length t) as [|m]; simpl.
  - lia.
  - destruct m; simpl; destruct (Nat.eqb qid id); lia.
Qed.

Lemma run_never_ahead : forall p faults k k' t s,
  run p faults k = (k', t, s) -> never_ahead t.
Proof.
  induction p as [|site|a IHa b IHb|qid body IH|r a IH|a IH]; intros faults k k' t s H; simpl in H.
  - inversion H. apply never_ahead_nil.
  - inversion H. apply never_ahead_call.
  - destruct (run a faults k) as [[k1 t1] s1] eqn:Ea.
    pose proof (IHa _ _ _ _ _ Ea) as Ha.
    destruct s1; try (inversion H; subst; exact Ha).
    destruct (run b faults k1) as [[k2 t2] s2] eqn:Eb. inversion H; subst.
    apply never_ahead_app; [exact Ha | eapply IHb; eauto].
  - destruct (run body faults k) as [[k1 t1] s1] eqn:Eb.
    pose proof (IH _ _ _ _ _ Eb) as Hb.
    destruct s1; inversion H; subst;
      first [apply never_ahead_bracket; exact Hb | apply never_ahead_open; exact Hb].
  - destruct (run a faults k) as [[k1 t1] s1] eqn:Ea. inversion H; subst. eapply IH; eauto.
  - destruct (run a faults k) as [[k1 t1] s1] eqn:Ea. inversion H; subst. eapply IH; eauto.
Qed.

(* ---- the engine's skeleton --------------------------------------------- *)

Lemma qids_fold_ev {A} site base (l : list A) :
  qids (fold_right (fun _ acc => Seq (Ev site) acc) base l) = qids base.
Proof. induction l as [|x l IH]; simpl; [reflexivity | exact IH]. Qed.

Lemma qids_exec_prog r sels nsteps : qids (exec_prog r sels nsteps) = map fst sels.
Proof.
  unfold exec_prog. simpl. induction sels as [|[id n] sels IH]; simpl; [reflexivity|].
  rewrite IH. unfold selector_prog, load_select. simpl. rewrite !qids_fold_ev. reflexivity.
Qed.

(* Every querier of an execution whose selectors have distinct queriers: opened
   at most once; closed exactly as often as opened when Exec returns; never
   closed ahead of its opening at any moment; opened exactly once on success. *)
Theorem engine_queriers_exactly_once : forall sels nsteps faults id,
  NoDup (map fst sels) ->
  let t := trace_of (exec_prog true sels nsteps) faults in
  count_open id t <= 1 /\
  count_close id t = count_open id t /\
  never_ahead t /\
  (status_of (exec_prog true sels nsteps) faults = SOk -> In id (map fst sels) -> count_open id t = 1).
Proof.
  intros sels nsteps faults id Hnd. unfold trace_of, status_of.
  destruct (run (exec_prog true sels nsteps) faults 0) as [[k' t] s] eqn:E. simpl.
  assert (Hle : occ id (map fst sels) <= 1).
  { unfold occ. apply (proj1 (NoDup_count_occ Nat.eq_dec _) Hnd). }
  repeat split.
  - pose proof (open_le_qids _ _ _ _ _ _ id E) as H. rewrite qids_exec_prog in H. lia.
  - symmetry. eapply queriers_balanced; [exact E|].
    pose proof (no_crash (exec_prog true sels nsteps) faults 0 (exec_prog_recovers sels nsteps)) as Hc.
    rewrite E in Hc. exact Hc.
  - eapply run_never_ahead; exact E.
  - intros Hs Hin. subst s.
    rewrite (open_eq_qids_ok _ _ _ _ _ id E), qids_exec_prog.
    assert (occ id (map fst sels) > 0) by (unfold occ; apply count_occ_In; exact Hin). lia.
Qed.

(* for any program: distinct querier names give at most one Open each *)
Theorem opened_at_most_once : forall p faults k k' t s id,
  NoDup (qids p) -> run p faults k = (k', t, s) -> count_open id t <= 1.
Proof.
  intros p faults k k' t s id Hnd H.
  pose proof (open_le_qids _ _ _ _ _ _ id H).
  pose proof (proj1 (NoDup_count_occ Nat.eq_dec _) Hnd id). unfold occ in *. lia.
Qed.

Example exactly_once_example :
  let p := exec_prog true [(0, 2); (1, 3)] 2 in
  let faults := fun k => if Nat.eqb k 12 then FPanic else FNone in
  NoDup (map fst [(0, 2); (1, 3)]) /\
  count_open 0 (trace_of p faults) = 1 /\ count_close 0 (trace_of p faults) = 1 /\
  count_open 1 (trace_of p faults) = 1 /\ count_close 1 (trace_of p faults) = 1 /\
  status_of p faults = SErr /\
  status_of p (fun _ => FNone) = SOk /\ count_open 1 (trace_of p (fun _ => FNone)) = 1.
Proof.
  repeat split; try reflexivity.
  repeat constructor; simpl; intuition discriminate.
Qed.
