(* Evaluation of Bin.v on operand streams recorded from the real engine
   (correspondence check of C05). Values are primitive floats. *)
From Coq Require Import List ZArith NArith Bool Floats.
From Verif Require Import Base Agg Func Bin.
Import ListNotations.
Close Scope Z_scope.

Record bin_case := mkBC {
  bc_id : N; bc_on : bool; bc_ml : list N; bc_incl : list N; bc_card : card; bc_bool : bool; bc_op : N;
  bc_lhs : list labels; bc_rhs : list labels;                       (* Series() of the two operands *)
  bc_steps : list (Z * list (nat * float) * list (nat * float));    (* step vectors of the two operands *)
  bc_expected : option (list (Z * list (labels * float))) }.        (* result per step; None = many-to-many error *)

(* binary/table.go: operations (arithmetic) and vectorBinaryOperations (comparisons, valueIdx 0) *)
Definition fop (code : N) (a b : float) : float * bool :=
  match code with
  | 0%N => ((a + b)%float, true)
  | 1%N => ((a - b)%float, true)
  | 2%N => ((a * b)%float, true)
  | 3%N => ((a / b)%float, true)
  | 4%N => (a, PrimFloat.eqb a b)
  | 5%N => (a, negb (PrimFloat.eqb a b))
  | 6%N => (a, PrimFloat.ltb b a)
  | 7%N => (a, PrimFloat.ltb a b)
  | 8%N => (a, PrimFloat.leb b a)
  | _ => (a, PrimFloat.leb a b)
  end.

Definition fb2v (b : bool) : float := if b then 1%float else 0%float.

Definition op_drops (code : N) : bool := N.ltb code 4.

(* equal as IEEE values and, for zeros, of the same sign (1/0 = +inf, 1/(-0) = -inf); two NaNs are equal *)
Definition feqb (a b : float) : bool :=
  (PrimFloat.eqb a b && PrimFloat.eqb (1 / a) (1 / b)) || (PrimFloat.is_nan a && PrimFloat.is_nan b).

(* label sets are compared as sets: sort by name code *)
Fixpoint insert_kv (kv : N * N) (l : labels) : labels :=
  match l with
  | [] => [kv]
  | x :: r => if N.leb (fst kv) (fst x) then kv :: l else x :: insert_kv kv r
  end.
Definition canon_labels (l : labels) : labels := fold_right insert_kv [] l.

Definition lv_eqb (a b : labels * float) : bool :=
  labels_eqb (canon_labels (fst a)) (canon_labels (fst b)) && feqb (snd a) (snd b).

Fixpoint remove_first {A} (eqb : A -> A -> bool) (x : A) (l : list A) : option (list A) :=
  match l with
  | [] => None
  | y :: r => if eqb x y then Some r else option_map (cons y) (remove_first eqb x r)
  end.

Fixpoint multiset_eqb {A} (eqb : A -> A -> bool) (a b : list A) : bool :=
  match a with
  | [] => match b with [] => true | _ => false end
  | x :: r => match remove_first eqb x b with Some b' => multiset_eqb eqb r b' | None => false end
  end.

Fixpoint steps_eqb (a b : list (Z * list (labels * float))) : bool :=
  match a, b with
  | [], [] => true
  | (t, x) :: r, (t', y) :: r' => Z.eqb t t' && multiset_eqb lv_eqb x y && steps_eqb r r'
  | _, _ => false
  end.

Definition bin_model (c : bin_case) :=
  run_operator float 0%float (fop (bc_op c)) fb2v (bc_on c) (bc_ml c) (bc_incl c) (bc_card c) (bc_bool c)
               (op_drops (bc_op c)) (bc_lhs c) (bc_rhs c) (bc_steps c).

Definition bin_case_ok (c : bin_case) : bool :=
  match bin_model c, bc_expected c with
  | inl outs, Some exp => steps_eqb outs exp
  | inr _, None => true
  | _, _ => false
  end.

Definition bin_mismatches (cs : list bin_case) : list N :=
  map bc_id (filter (fun c => negb (bin_case_ok c)) cs).
