(* The vector/vector binary operator (property C05): the hash join built once
   over the two series lists (binary/vector.go initOutputs, hashSeries, join,
   signature, buildOutputSeries) and the per-step table with timestamp tags
   (binary/table.go execBinaryOperation), next to the reference engine's
   per-step VectorBinop (promql/engine.go) as the specification.

   Output series IDs: the engine numbers them while ranging over a Go map of
   signature hashes, so the numbering is not a function of the inputs and is not
   observable in a result; the model numbers the matched high-cardinality series
   in their input order. Within one low-cardinality series' output list the
   order (input order of the high-cardinality series with that signature) is the
   engine's. Equal hashes are modelled as equal signatures. *)
From Coq Require Import List ZArith NArith Bool Lia.
From Verif Require Import Base Agg Func.
Import ListNotations.
Close Scope Z_scope.

Inductive card := OneToOne | ManyToOne | OneToMany.

Definition is_one_to_one (c : card) : bool := match c with OneToOne => true | _ => false end.
Definition is_many_to_one (c : card) : bool := match c with ManyToOne => true | _ => false end.
Definition is_one_to_many (c : card) : bool := match c with OneToMany => true | _ => false end.

(* ---- labels ---------------------------------------------------------------- *)

Definition del_name (l : labels) : labels := filter (fun kv => negb (N.eqb (fst kv) 0)) l.

Definition lookup (l : labels) (n : N) : option N :=
  option_map snd (find (fun kv => N.eqb (fst kv) n) l).

Definition ldel (l : labels) (n : N) : labels := filter (fun kv => negb (N.eqb (fst kv) n)) l.
(* labels.Builder.Set followed by Labels(): the label takes its place in the order of names *)
Fixpoint linsert (n v : N) (l : labels) : labels :=
  match l with
  | [] => [(n, v)]
  | (k, x) :: r => if N.ltb n k then (n, v) :: l else (k, x) :: linsert n v r
  end.
Definition lset (l : labels) (n v : N) : labels := linsert n v (ldel l n).

(* signature(): the labels a series keeps in the join table.
   keep_labels = the matching is not one-to-one; keep_name = the operator keeps the metric name *)
Definition side_labels (on : bool) (ml : list N) (keep_labels keep_name : bool) (l : labels) : labels :=
  let l1 := if keep_name then l else del_name l in
  if keep_labels then l1
  else if on then filter (fun kv => mem_n (fst kv) ml) l1
       else filter (fun kv => negb (mem_n (fst kv) (if keep_name then ml else 0%N :: ml))) l1.

(* buildOutputSeries: included labels take the value of the low-cardinality ("one")
   side and are removed if that side does not have them *)
Definition include_labels (incl : list N) (m from : labels) : labels :=
  fold_left (fun m n => match lookup from n with Some v => lset m n v | None => ldel m n end) incl m.

(* buildOutputSeries: the table's copy of the high-cardinality series, the "one"
   side's series as it came in; with bool the metric name does not come back *)
Definition build_output (incl : list N) (return_bool : bool) (m from : labels) : labels :=
  match incl with
  | [] => m
  | _ => let m' := include_labels incl m from in if return_bool then del_name m' else m'
  end.

(* ---- the join, built once over the series lists --------------------------- *)

Section Join.
  Variable sigf : labels -> labels.       (* matching signature *)
  Variable lblf : labels -> labels.       (* labels kept in the table (side_labels) *)
  Variable incl : list N.
  Variable return_bool : bool.
  Variable hi lo : list labels.           (* high- and low-cardinality side, by series ID *)

  Definition key_eq (a b : labels) : bool := labels_eqb (sigf a) (sigf b).

  Definition matched (h : labels) : bool := existsb (key_eq h) lo.

  (* lowCardHashes[hash][0]: the first low-cardinality series with the signature *)
  Definition first_lo (h : labels) : option labels := find (key_eq h) lo.

  Fixpoint hi_index_from (next : nat) (hs : list labels) : list (option nat) :=
    match hs with
    | [] => []
    | h :: r => if matched h then Some next :: hi_index_from (S next) r
                else None :: hi_index_from next r
    end.

  (* highCardOutputIndex: high-cardinality series ID -> output series ID, if it joins *)
  Definition hi_index : list (option nat) := hi_index_from 0 hi.

  (* the operator's Series() *)
  Definition out_series : list labels :=
    flat_map (fun h => match first_lo h with
                       | Some l => [build_output incl return_bool (lblf h) l]
                       | None => []
                       end) hi.

  (* lowCardOutputIndex: low-cardinality series ID -> the output series of all
     high-cardinality series with its signature *)
  Definition lo_index : list (list nat) :=
    map (fun l => flat_map (fun ho => match snd ho with
                                      | Some o => if key_eq (fst ho) l then [o] else []
                                      | None => []
                                      end) (combine hi hi_index)) lo.
End Join.

(* ---- the per-step table ---------------------------------------------------- *)

(* the tag of a slot no step has written; no step has this timestamp *)
Definition noT : Z := (- 2 ^ 63)%Z.

Inductive side := LH | RH.
Inductive step_err := ManyToMany (s : side) (prev dup : nat).

Section Step.
  Variable V : Type.
  Variable dflt : V.
  Variable op : V -> V -> V * bool.       (* value, and for comparisons whether it holds *)
  Variable b2v : bool -> V.
  Variable c : card.
  Variable return_bool : bool.
  Variable hidx : list (option nat).
  Variable lidx : list (list nat).

  Record slot := mkSlot { lhT : Z; rhT : Z; lhID : nat; rhID : nat; sval : V }.
  Definition dslot : slot := mkSlot noT noT 0 0 dflt.
  Definition tbl := list slot.

  Definition new_table (n : nat) : tbl := repeat dslot n.

  Fixpoint set_nth (t : tbl) (i : nat) (s : slot) : tbl :=
    match t, i with
    | [], _ => []
    | _ :: r, O => s :: r
    | x :: r, S j => x :: set_nth r j s
    end.

  Definition hi_outs (id : nat) : list nat := match nth id hidx None with Some o => [o] | None => [] end.
  Definition lo_outs (id : nat) : list nat := nth id lidx [].
  (* the left-hand side is the high-cardinality side unless the matching is one-to-many *)
  Definition lhs_outs (id : nat) : list nat := if is_one_to_many c then lo_outs id else hi_outs id.
  Definition rhs_outs (id : nat) : list nat := if is_one_to_many c then hi_outs id else lo_outs id.

  Fixpoint lhs_write (ts : Z) (id : nat) (v : V) (outs : list nat) (t : tbl) : tbl + step_err :=
    match outs with
    | [] => inl t
    | o :: r =>
        let s := nth o t dslot in
        if negb (is_many_to_one c) && (lhT s =? ts)%Z then inr (ManyToMany LH (lhID s) id)
        else lhs_write ts id v r (set_nth t o (mkSlot ts (rhT s) id (rhID s) v))
    end.

  Fixpoint lhs_phase (ts : Z) (vec : list (nat * V)) (t : tbl) : tbl + step_err :=
    match vec with
    | [] => inl t
    | (id, v) :: r =>
        match lhs_write ts id v (lhs_outs id) t with
        | inl t' => lhs_phase ts r t'
        | inr e => inr e
        end
    end.

  Definition emit (o : nat) (r : V * bool) : list (nat * V) :=
    if return_bool then [(o, b2v (snd r))] else if snd r then [(o, fst r)] else [].

  Fixpoint rhs_write (ts : Z) (id : nat) (rv : V) (outs : list nat) (t : tbl) (acc : list (nat * V))
    : (tbl * list (nat * V)) + step_err :=
    match outs with
    | [] => inl (t, acc)
    | o :: r =>
        let s := nth o t dslot in
        if negb (lhT s =? ts)%Z then rhs_write ts id rv r t acc
        else if negb (is_one_to_many c) && (rhT s =? ts)%Z then inr (ManyToMany RH (rhID s) id)
        else rhs_write ts id rv r (set_nth t o (mkSlot (lhT s) ts (lhID s) id (sval s)))
                       (acc ++ emit o (op (sval s) rv))
    end.

  Fixpoint rhs_phase (ts : Z) (vec : list (nat * V)) (t : tbl) (acc : list (nat * V))
    : (tbl * list (nat * V)) + step_err :=
    match vec with
    | [] => inl (t, acc)
    | (id, rv) :: r =>
        match rhs_write ts id rv (rhs_outs id) t acc with
        | inl (t', acc') => rhs_phase ts r t' acc'
        | inr e => inr e
        end
    end.

  (* table.execBinaryOperation on one pair of step vectors *)
  Definition exec_step (ts : Z) (lhs rhs : list (nat * V)) (t : tbl) : (tbl * list (nat * V)) + step_err :=
    match lhs_phase ts lhs t with
    | inl t1 => rhs_phase ts rhs t1 []
    | inr e => inr e
    end.

  (* vectorOperator.Next over the steps of a query; the table lives across steps *)
  Fixpoint exec_steps (steps : list (Z * list (nat * V) * list (nat * V))) (t : tbl)
    : list (Z * list (nat * V)) + step_err :=
    match steps with
    | [] => inl []
    | (ts, lhs, rhs) :: r =>
        match exec_step ts lhs rhs t with
        | inl (t', out) =>
            match exec_steps r t' with
            | inl outs => inl ((ts, out) :: outs)
            | inr e => inr e
            end
        | inr e => inr e
        end
    end.

  (* ---- the same step without the table: every output slot pairs the sample
     of the left-hand side that feeds it with the sample of the right-hand side *)
  Definition feeds (o : nat) (outs : nat -> list nat) (iv : nat * V) : bool := existsb (Nat.eqb o) (outs (fst iv)).

  Definition pure_step (lhs rhs : list (nat * V)) : list (nat * V) :=
    flat_map (fun rs => flat_map (fun o => match find (feeds o lhs_outs) lhs with
                                            | Some ls => emit o (op (snd ls) (snd rs))
                                            | None => []
                                            end) (rhs_outs (fst rs))) rhs.
End Step.

(* ---- the reference: VectorBinop on one step, over labelled samples -------- *)

Section Ref.
  Variable V : Type.
  Variable op : V -> V -> V * bool.
  Variable b2v : bool -> V.
  Variable sigf : labels -> labels.
  Variable result_metric : labels -> labels -> labels.   (* many-side metric, one-side metric *)
  Variable c : card.
  Variable return_bool : bool.

  Definition sig_eq (a b : labels) : bool := labels_eqb (sigf a) (sigf b).

  Fixpoint has_dup_sig (l : list (labels * V)) : bool :=
    match l with
    | [] => false
    | x :: r => existsb (fun y => sig_eq (fst x) (fst y)) r || has_dup_sig r
    end.

  (* [seen]: signature and result metric of what has been emitted *)
  Fixpoint ref_many (many one : list (labels * V)) (seen : list (labels * labels)) : option (list (labels * V)) :=
    match many with
    | [] => Some []
    | ls :: r =>
        match find (fun rs => sig_eq (fst ls) (fst rs)) one with
        | None => ref_many r one seen
        | Some rs =>
            let res := if is_one_to_many c then op (snd rs) (snd ls) else op (snd ls) (snd rs) in
            if negb return_bool && negb (snd res) then ref_many r one seen
            else
              let metric := result_metric (fst ls) (fst rs) in
              let dup := if is_one_to_one c
                         then existsb (fun sm => labels_eqb (fst sm) (sigf (fst ls))) seen
                         else existsb (fun sm => labels_eqb (fst sm) (sigf (fst ls)) && labels_eqb (snd sm) metric) seen in
              if dup then None
              else option_map (cons (metric, if return_bool then b2v (snd res) else fst res))
                              (ref_many r one ((sigf (fst ls), metric) :: seen))
        end
    end.

  (* None: the reference fails ("many-to-many matching not allowed", "multiple matches for labels") *)
  Definition ref_step (lhs rhs : list (labels * V)) : option (list (labels * V)) :=
    let many := if is_one_to_many c then rhs else lhs in
    let one := if is_one_to_many c then lhs else rhs in
    if has_dup_sig one then None else ref_many many one [].
End Ref.

(* resultMetric of the reference engine *)
Definition ref_result_metric (op_drops_name return_bool : bool) (c : card) (on : bool) (ml incl : list N)
           (lm rm : labels) : labels :=
  let m1 := if op_drops_name then del_name lm else lm in
  let m2 := if is_one_to_one c
            then (if on then filter (fun kv => mem_n (fst kv) ml) m1
                  else filter (fun kv => negb (mem_n (fst kv) ml)) m1)
            else m1 in
  let m3 := include_labels incl m2 rm in
  if return_bool then del_name m3 else m3.

(* ---- the whole operator on one step, over labelled samples ---------------- *)

Section Operator.
  Variable V : Type.
  Variable dflt : V.
  Variable op : V -> V -> V * bool.
  Variable b2v : bool -> V.
  Variable on : bool.
  Variable ml incl : list N.
  Variable c : card.
  Variable return_bool : bool.
  Variable op_drops_name : bool.          (* shouldDropMetricName(op) of the reference: + - * / ^ % *)
  Variable lhs_series rhs_series : list labels.

  Definition keep_name : bool := negb (op_drops_name || return_bool).
  Definition keep_labels : bool := negb (is_one_to_one c).
  Definition the_sig : labels -> labels := signature on ml.
  Definition the_lbl : labels -> labels := side_labels on ml keep_labels keep_name.

  Definition hi_series : list labels := if is_one_to_many c then rhs_series else lhs_series.
  Definition lo_series : list labels := if is_one_to_many c then lhs_series else rhs_series.

  Definition op_hidx : list (option nat) := hi_index the_sig hi_series lo_series.
  Definition op_lidx : list (list nat) := lo_index the_sig hi_series lo_series.
  Definition op_series : list labels := out_series the_sig the_lbl incl return_bool hi_series lo_series.

  Definition relabel (out : list (nat * V)) : list (labels * V) :=
    map (fun ov => (nth (fst ov) op_series [], snd ov)) out.

  (* all steps of a query *)
  Definition run_operator (steps : list (Z * list (nat * V) * list (nat * V)))
    : list (Z * list (labels * V)) + step_err :=
    match exec_steps V dflt op b2v c return_bool op_hidx op_lidx steps
                     (new_table V dflt (length op_series)) with
    | inl outs => inl (map (fun to => (fst to, relabel (snd to))) outs)
    | inr e => inr e
    end.

  (* the reference on the same step, the samples carrying their series' labels *)
  Definition labelled (series : list labels) (vec : list (nat * V)) : list (labels * V) :=
    map (fun iv => (nth (fst iv) series [], snd iv)) vec.

  Definition ref_operator_step (lhs rhs : list (nat * V)) : option (list (labels * V)) :=
    ref_step V op b2v the_sig (ref_result_metric op_drops_name return_bool c on ml incl) c return_bool
             (labelled lhs_series lhs) (labelled rhs_series rhs).
End Operator.
