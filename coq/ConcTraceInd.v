(* The labelled system of ConcTrace.v - the one the recorded logs of the real
   operator are checked against - refines the transition system of Conc.v for
   every number of child batches: each of its steps is a log entry or cancel
   bookkeeping (the underlying state does not move) or a step of Conc.steps.
   Hence every state it reaches satisfies the inductive invariant of ConcInd.v:
   the safety statements hold on every trace the acceptance check can follow,
   not only on those of 0..6 batches. *)
From Coq Require Import List Arith Bool Lia.
From Verif Require Import Conc ConcInd ConcTrace.
Import ListNotations.

Lemma in_steps_env recheck s x : In x (if done_ s then [] else [mkSt true (buf s) (closed s) (pull s) (remaining s) (drain s) (cons s) (received s)]) -> In x (steps recheck s).
Proof. intros H. unfold steps. apply in_or_app. left. exact H. Qed.

Lemma lstep_refines recheck x ly : In ly (lsteps recheck x) ->
  base (snd ly) = base x \/ In (base (snd ly)) (steps recheck (base x)).
Proof.
  intros Hin. unfold lsteps in Hin. destruct x as [s pp cp ph]. simpl in Hin.
  apply in_app_or in Hin. destruct Hin as [Hin|Hin].
  { destruct ph as [|[|ph]].
    - destruct Hin as [<-|[]]. left. reflexivity.
    - destruct (done_ s) eqn:Ed.
      + destruct Hin as [<-|[]]. left. reflexivity.
      + destruct Hin as [<-|[]]. right. simpl. unfold steps. apply in_or_app. left. rewrite Ed. left. reflexivity.
    - destruct Hin. }
  apply in_app_or in Hin. destruct Hin as [Hin|Hin].
  { destruct cp as [l|].
    - destruct Hin as [<-|[]]. left. reflexivity.
    - right. simpl. unfold steps. apply in_or_app. right. apply in_or_app. left.
      destruct s as [d b c p r dr cs rc]; simpl in *.
      destruct cs; simpl in *.
      + destruct d; destruct Hin as [<-|[]]; left; reflexivity.
      + destruct d; destruct Hin as [<-|[]]; left; reflexivity.
      + destruct b as [|[] b]; [destruct c; [|destruct Hin]| |]; destruct Hin as [<-|[]]; left; reflexivity.
      + destruct (recheck && d); destruct Hin as [<-|[]]; left; reflexivity.
      + destruct Hin.
      + destruct Hin. }
  apply in_app_or in Hin. destruct Hin as [Hin|Hin].
  { destruct pp as [l|].
    - destruct Hin as [<-|[]]. left. reflexivity.
    - right. simpl. unfold steps. apply in_or_app. right. apply in_or_app. right. apply in_or_app. left.
      destruct s as [d b c p r dr cs rc]; simpl in *.
      destruct p; simpl in *.
      + destruct d; destruct Hin as [<-|[]]; left; reflexivity.
      + destruct Hin as [<-|Hin].
        * left. reflexivity.
        * right. destruct r; destruct Hin as [<-|[]]; left; reflexivity.
      + destruct (Nat.ltb (length b) cap); [|destruct Hin]. destruct Hin as [<-|[]]. left. reflexivity.
      + destruct (Nat.ltb (length b) cap); [|destruct Hin]. destruct Hin as [<-|[]]. left. reflexivity.
      + destruct Hin as [<-|[]]. left. reflexivity.
      + destruct Hin. }
  { right. simpl. unfold steps. apply in_or_app. right. apply in_or_app. right. apply in_or_app. right.
    destruct s as [d b c p r dr cs rc]; simpl in *.
    destruct dr; simpl in *.
    - destruct d; [|destruct Hin]. destruct Hin as [<-|[]]. left. reflexivity.
    - destruct b as [|m b]; [destruct c; [|destruct Hin]|]; destruct Hin as [<-|[]]; left; reflexivity.
    - destruct Hin. }
Qed.

Inductive lreach (total : nat) : lst -> Prop :=
| lreach_init : lreach total (linit total)
| lreach_step x ly : lreach total x -> In ly (lsteps true x) -> lreach total (snd ly).

Theorem labelled_reach_refines total x : lreach total x -> reach_raw total (base x).
Proof.
  induction 1 as [|x ly Hr IH Hin]; [constructor|].
  destruct (lstep_refines true x ly Hin) as [E|Hs]; [rewrite E; exact IH|].
  eapply reach_raw_step; eassumption.
Qed.

(* on every state the labelled system can reach, for every number of batches: a successful verdict
   carries the complete result and the channel is within its capacity *)
Theorem labelled_system_safe total x : lreach total x ->
  (cons (base x) = CRetOk -> received (base x) = total) /\ length (buf (base x)) <= cap.
Proof.
  intros Hr. pose proof (operator_safe_unbounded_raw total (base x) (labelled_reach_refines _ _ Hr)) as H. tauto.
Qed.

(* ---- the acceptance check only follows steps of the labelled system -------------------------- *)

Section Sound.
  Variable recheck : bool.
  Variable P : lst -> Prop.
  Hypothesis Pstep : forall x ly, P x -> In ly (lsteps recheck x) -> P (snd ly).

  Lemma add_new_l_sub cands seen : forall y, In y (fst (add_new_l cands seen)) -> In y cands.
  Proof.
    unfold add_new_l.
    assert (G : forall cs acc set y, In y (fst (fold_left (fun '(acc, set) c =>
               let k := lcode c in
               if MSetPositive.PositiveSet.mem k set then (acc, set) else (c :: acc, MSetPositive.PositiveSet.add k set)) cs (acc, set))) ->
               In y acc \/ In y cs).
    { induction cs as [|c cs IH]; intros acc set y Hy; simpl in *; [left; exact Hy|].
      destruct (MSetPositive.PositiveSet.mem (lcode c) set).
      - destruct (IH _ _ _ Hy); [left; assumption|right; right; assumption].
      - destruct (IH _ _ _ Hy) as [[<-|H]|H]; [right; left; reflexivity|left; assumption|right; right; assumption]. }
    intros y Hy. destruct (G _ _ _ _ Hy) as [[]|H]; exact H.
  Qed.

  Lemma tau_succ_P x y : P x -> In y (tau_succ recheck x) -> P y.
  Proof.
    unfold tau_succ. intros Hx Hy. apply in_flat_map in Hy. destruct Hy as [ly [Hin Hy]].
    destruct (fst ly); [destruct Hy|]. destruct Hy as [<-|[]]. eapply Pstep; eassumption.
  Qed.

  Lemma lab_succ_P l x y : P x -> In y (lab_succ recheck l x) -> P y.
  Proof.
    unfold lab_succ. intros Hx Hy. apply in_flat_map in Hy. destruct Hy as [ly [Hin Hy]].
    destruct (fst ly) as [l'|]; [|destruct Hy]. destruct (label_eqb l l'); [|destruct Hy].
    destruct Hy as [<-|[]]. eapply Pstep; eassumption.
  Qed.

  Lemma tau_close_P : forall fuel frontier seen acc,
    (forall x, In x frontier -> P x) -> (forall x, In x acc -> P x) ->
    forall y, In y (tau_close recheck fuel frontier seen acc) -> P y.
  Proof.
    induction fuel as [|f IH]; intros frontier seen acc Hf Ha y Hy; simpl in Hy; [auto|].
    destruct frontier as [|x0 fr]; [auto|].
    destruct (add_new_l (flat_map (tau_succ recheck) (x0 :: fr)) seen) as [new seen'] eqn:E.
    assert (Hn : forall x, In x new -> P x).
    { intros x Hx. assert (Hx' : In x (fst (add_new_l (flat_map (tau_succ recheck) (x0 :: fr)) seen))) by (rewrite E; exact Hx).
      apply add_new_l_sub in Hx'. apply in_flat_map in Hx'. destruct Hx' as [z [Hz Hx']].
      eapply tau_succ_P; [apply Hf; exact Hz|exact Hx']. }
    apply (IH new seen' (new ++ acc)); [exact Hn| |exact Hy].
    intros x Hx. apply in_app_or in Hx. destruct Hx; auto.
  Qed.

  Lemma close_P xs : (forall x, In x xs -> P x) -> forall y, In y (close recheck xs) -> P y.
  Proof.
    intros Hxs y Hy. unfold close in Hy. destruct (add_new_l xs MSetPositive.PositiveSet.empty) as [start seen] eqn:E.
    assert (Hs : forall x, In x start -> P x).
    { intros x Hx. apply Hxs. apply (add_new_l_sub xs MSetPositive.PositiveSet.empty). rewrite E. exact Hx. }
    eapply tau_close_P; [exact Hs|exact Hs|exact Hy].
  Qed.

  Lemma after_P : forall trace cur, (forall x, In x cur -> P x) -> forall y, In y (after recheck cur trace) -> P y.
  Proof.
    induction trace as [|l rest IH]; intros cur Hc y Hy; simpl in Hy; [auto|].
    apply (IH (close recheck (flat_map (lab_succ recheck l) cur))); [|exact Hy].
    apply close_P. intros x Hx. apply in_flat_map in Hx. destruct Hx as [z [Hz Hx]].
    eapply lab_succ_P; [apply Hc; exact Hz|exact Hx].
  Qed.
End Sound.

(* every state the acceptance check associates with a log is a state the labelled system reaches, so
   the underlying operator state is a reachable state of Conc.v and satisfies the invariant:
   an accepted log is explained by a run on which the safety statements hold *)
Theorem accepted_log_has_a_safe_run total trace : accepts true total trace = true ->
  exists x, In x (after true (close true [linit total]) trace) /\ lreach total x /\
            (cons (base x) = CRetOk -> received (base x) = total) /\ length (buf (base x)) <= cap.
Proof.
  unfold accepts. intros Hacc.
  assert (HP : forall y, In y (after true (close true [linit total]) trace) -> lreach total y).
  { apply (after_P true (lreach total)).
    - intros x ly Hx Hin. eapply lreach_step; eassumption.
    - apply close_P.
      + intros x ly Hx Hin. eapply lreach_step; eassumption.
      + intros x [<-|[]]. constructor. }
  destruct (after true (close true [linit total]) trace) as [|x rest] eqn:E; [discriminate|].
  exists x. split; [left; reflexivity|]. split; [apply HP; left; reflexivity|].
  apply labelled_system_safe. apply HP. left. reflexivity.
Qed.
