(* Evaluation of Bucket.v on primitive floats, on operand streams recorded from the
   real histogramOperator (correspondence check of C06 for histogram_quantile). *)
From Coq Require Import List ZArith NArith Bool Floats.
From Verif Require Import Base RangeArith RangeFns Agg Bin BinCases Bucket.
Import ListNotations.
Close Scope Z_scope.

Record hist_case := mkHC {
  hc_id : N;
  hc_le : N;                                                  (* the code of the label name le *)
  hc_ins : list (labels * option (option float));             (* the operand's series: labels, parsed upper bound *)
  hc_steps : list (Z * float * list (nat * float));           (* step, scalar argument, operand vector *)
  hc_expected : list (Z * list (labels * float)) }.

Definition hist_model (c : hist_case) : list (Z * list (labels * float)) :=
  let '(outs, idx) := load float (hc_le c) (hc_ins c) [] in
  map (fun s : Z * float * list (nat * float) =>
         let '(t, q, vec) := s in
         (t, map (fun e : nat * float => (nth (fst e) outs [], snd e))
                 (hist_step float fops infinity neg_infinity (length outs) idx (Some q) vec)))
      (hc_steps c).

Definition hist_case_ok (c : hist_case) : bool := steps_eqb (hist_model c) (hc_expected c).

Definition hist_mismatches (cs : list hist_case) : list N :=
  map hc_id (filter (fun c => negb (hist_case_ok c)) cs).
