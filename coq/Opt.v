(* Logical-plan optimizers (property C09): matcher semantics, the in-engine
   filter (storage/filter.go), SortMatchers, MergeSelectsOptimizer and
   PropagateMatchersOptimizer (logicalplan/*.go), with [traverse]'s positions. *)
From Coq Require Import List String ZArith NArith Bool Lia Permutation.
From Verif Require Import Ast Base.
Import ListNotations.

(* ---- matcher semantics ------------------------------------------------- *)

Fixpoint lget (l : labels) (n : N) : N :=
  match l with
  | [] => 0%N                                  (* absent label = empty value *)
  | (k, v) :: rest => if N.eqb k n then v else lget rest n
  end.

Section Semantics.
  (* regular-expression semantics: pattern id -> value id -> bool. Theorems hold
     for every [re]; cases supply the finite table computed by Go's matcher. *)
  Variable re : N -> N -> bool.

  Definition matches (m : matcher) (l : labels) : bool :=
    let v := lget l (mname m) in
    match mty m with
    | MEq => N.eqb v (mval m)
    | MNeq => negb (N.eqb v (mval m))
    | MRe => re (mval m) v
    | MNre => negb (re (mval m) v)
    end.

  Definition sel_matches (ms : list matcher) (l : labels) : bool := forallb (fun m => matches m l) ms.

  (* the series a selector denotes: the storage select on [vms] followed by the
     in-engine filter [vflt] (filter.Matches evaluates every matcher) *)
  Definition vsel_matches (v : vsel) (l : labels) : bool :=
    sel_matches (vms v) l && match vflt v with Some fs => sel_matches fs l | None => true end.

  Definition denote_sel (v : vsel) (D : list series) : list series :=
    filter (fun s => vsel_matches v (slab s)) D.
End Semantics.

(* ---- SortMatchers ------------------------------------------------------ *)

Fixpoint insert_by_name (m : matcher) (l : list matcher) : list matcher :=
  match l with
  | [] => [m]
  | x :: rest => if N.leb (mname m) (mname x) then m :: l else x :: insert_by_name m rest
  end.

Definition sort_matchers (l : list matcher) : list matcher := fold_right insert_by_name [] l.

(* ---- MergeSelectsOptimizer --------------------------------------------- *)

Definition contains_matcher (ms : list matcher) (m : matcher) : bool := existsb (matcher_eqb m) ms.

(* findReplacement against a candidate [top] *)
Definition usable_replacement (top ms : list matcher) : bool :=
  forallb (contains_matcher ms) top && negb (forallb (contains_matcher top) ms).

Definition heap := list (N * list matcher).     (* metric-name value -> fewest-matcher selector *)

Fixpoint heap_get (h : heap) (k : N) : option (list matcher) :=
  match h with
  | [] => None
  | (k', v) :: rest => if N.eqb k k' then Some v else heap_get rest k
  end.

Fixpoint heap_set (h : heap) (k : N) (v : list matcher) : heap :=
  match h with
  | [] => [(k, v)]
  | (k', v') :: rest => if N.eqb k k' then (k, v) :: rest else (k', v') :: heap_set rest k v
  end.

(* matcherHeap.add: keep the candidate with fewer matchers *)
Definition heap_add (h : heap) (k : N) (ms : list matcher) : heap :=
  match heap_get h k with
  | None => heap_set h k ms
  | Some cur => if Nat.ltb (List.length ms) (List.length cur) then heap_set h k ms else h
  end.

Definition name_matchers (ms : list matcher) : list matcher := filter (fun m => N.eqb (mname m) 0) ms.

Definition heap_add_selector (h : heap) (ms : list matcher) : heap :=
  fold_left (fun h m => heap_add h (mval m) ms) (name_matchers ms) h.

(* extractSelectors: every vector selector of the tree, in Inspect order *)
Fixpoint all_selectors (e : expr) : list (list matcher) :=
  match e with
  | EVec v | EMat v _ => [vms v]
  | ECall _ args => flat_map all_selectors args
  | EAgg _ _ _ param e1 => all_selectors e1 ++ match param with Some p => all_selectors p | None => [] end
  | EBin _ _ _ _ _ _ l r => all_selectors l ++ all_selectors r
  | EParen e1 | EUn _ e1 | EStepInv e1 | ESubq e1 => all_selectors e1
  | _ => []
  end.

Definition build_heap (e : expr) : heap := fold_left heap_add_selector (all_selectors e) [].

(* replaceMatchers on one selector: the first metric-name matcher with a usable replacement wins *)
Fixpoint first_replacement (h : heap) (names : list matcher) (ms : list matcher) : option (list matcher) :=
  match names with
  | [] => None
  | m :: rest =>
      match heap_get h (mval m) with
      | Some top => if usable_replacement top ms then Some top else first_replacement h rest ms
      | None => first_replacement h rest ms
      end
  end.

Definition merge_sel (h : heap) (v : vsel) : vsel :=
  match vflt v with
  | Some _ => v                                 (* already a FilteredSelector: not a *parser.VectorSelector *)
  | None =>
      match first_replacement h (name_matchers (vms v)) (vms v) with
      | Some top =>
          mkVS top (vorig v) (voff v) (vat v)
               (Some (filter (fun m => negb (contains_matcher top m)) (vms v))) (vsyn v)
      | None => v
      end
  end.

(* ---- traverse: the positions at which a transform is applied ----------- *)

(* applies [f] to the vector selectors reached by logicalplan.traverse *)
Fixpoint traverse_sel (f : vsel -> vsel) (e : expr) : expr :=
  match e with
  | EStepInv e1 =>
      EStepInv (match e1 with EVec v => EVec (f v) | _ => e1 end)   (* transform(&node.Expr), no descent *)
  | EVec v => EVec (f v)
  | EMat v r => EMat (f v) r
  | EAgg op w g p e1 => EAgg op w g p (traverse_sel f e1)             (* the parameter is not traversed *)
  | ECall fn args => ECall fn (map (traverse_sel f) args)
  | EBin op b c on ml incl l r => EBin op b c on ml incl (traverse_sel f l) (traverse_sel f r)
  | EUn n e1 => EUn n (traverse_sel f e1)
  | EParen e1 => EParen (traverse_sel f e1)
  | ESubq e1 => ESubq (traverse_sel f e1)
  | _ => e
  end.

Definition opt_sort (e : expr) : expr :=
  traverse_sel (fun v => mkVS (sort_matchers (vms v)) (vorig v) (voff v) (vat v) (vflt v) (vsyn v)) e.

Definition opt_merge (e : expr) : expr := traverse_sel (merge_sel (build_heap e)) e.

(* ---- PropagateMatchersOptimizer ---------------------------------------- *)

Definition is_comparison (op : string) : bool :=
  existsb (String.eqb op) ["=="; "!="; ">"; "<"; ">="; "<="]%string.

(* the selector's syntactic metric name, as far as the AST shows it *)
Definition vname (v : vsel) : N :=
  match filter (fun m => N.eqb (mname m) 0 && mtype_eqb (mty m) MEq) (vms v) with
  | m :: _ => mval m
  | [] => 0%N
  end.

(* withPropagatedMatchers: own ++ other's non-name matchers not yet present, stably sorted by name *)
Definition with_propagated (own other : list matcher) : list matcher :=
  sort_matchers
    (fold_left (fun acc m => if N.eqb (mname m) 0 || contains_matcher acc m then acc else acc ++ [m]) other own).

Definition propagate_bin (op : string) (cd : card) (on : bool) (ml : list N) (l r : expr) : expr * expr :=
  match l, r with
  | EVec lv, EVec rv =>
      match vflt lv, vflt rv with
      | None, None =>
          if is_comparison op || on || negb (Nat.eqb (List.length ml) 0) || negb (card_eqb cd OneToOne)
             || N.eqb (vsyn lv) (vsyn rv)     (* lhSelector.Name == rhSelector.Name: the syntactic names *)
          then (l, r)
          else (EVec (mkVS (with_propagated (vms lv) (vms rv)) (vorig lv) (voff lv) (vat lv) None (vsyn lv)),
                EVec (mkVS (with_propagated (vms rv) (vms lv)) (vorig rv) (voff rv) (vat rv) None (vsyn rv)))
      | _, _ => (l, r)
      end
  | _, _ => (l, r)
  end.

(* traverse with the transform applied at binary expressions (before descending) *)
Fixpoint opt_propagate (e : expr) : expr :=
  match e with
  | EStepInv e1 =>
      EStepInv (match e1 with
                | EBin op b c on ml incl l r =>
                    let '(l', r') := propagate_bin op c on ml l r in EBin op b c on ml incl l' r'
                | _ => e1
                end)
  | EAgg op w g p e1 => EAgg op w g p (opt_propagate e1)
  | ECall fn args => ECall fn (map opt_propagate args)
  | EBin op b c on ml incl l r =>
      match l, r with
      | EVec _, EVec _ =>                       (* leaves: nothing to descend into *)
          let '(l', r') := propagate_bin op c on ml l r in EBin op b c on ml incl l' r'
      | _, _ => EBin op b c on ml incl (opt_propagate l) (opt_propagate r)
      end
  | EUn n e1 => EUn n (opt_propagate e1)
  | EParen e1 => EParen (opt_propagate e1)
  | ESubq e1 => ESubq (opt_propagate e1)
  | _ => e
  end.
