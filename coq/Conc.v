(* Labelled transition system of exchange.concurrencyOperator (pull producer,
   drainBufferOnCancel, channel of capacity 2) under the consumer loop of
   compatibilityQuery.Exec, with cancellation at any moment (property C14).
   The state space is finite for a fixed number of child batches; the theorems
   are established by exhaustive exploration inside Coq (vm_compute), with the
   bound stated. *)
From Coq Require Import List ZArith NArith PArith Bool Lia MSets.MSetPositive.
Import ListNotations.

Inductive msg := MData | MErr.
Inductive pullst := PTop | PCalling | PSendData | PSendErr | PClose | PDone.
Inductive drainst := DWait | DDrain | DStopped.
Inductive consst := CIdle | CNext | CRecv | CAfterLoop | CRetOk | CRetErr.

Record st := mkSt {
  done_ : bool;            (* the context is cancelled *)
  buf : list msg;          (* the channel, oldest first *)
  closed : bool;
  pull : pullst;
  remaining : nat;         (* batches the child will still produce *)
  drain : drainst;
  cons : consst;
  received : nat }.        (* data batches the consumer has accumulated *)

Definition cap := 2.

Definition finished_consumer (s : st) : bool :=
  match cons s with CRetOk | CRetErr => true | _ => false end.

(* [recheck]: whether Exec re-checks the context after its loop (the fix) *)
Definition steps (recheck : bool) (s : st) : list st :=
  (* environment: cancellation (also Exec's deferred cancel once it returned) *)
  (if done_ s then [] else [mkSt true (buf s) (closed s) (pull s) (remaining s) (drain s) (cons s) (received s)])
  ++
  (* consumer *)
  (match cons s with
   | CIdle => if done_ s then [mkSt (done_ s) (buf s) (closed s) (pull s) (remaining s) (drain s) CRetErr (received s)]
              else [mkSt (done_ s) (buf s) (closed s) (pull s) (remaining s) (drain s) CNext (received s)]
   | CNext => if done_ s then [mkSt (done_ s) (buf s) (closed s) (pull s) (remaining s) (drain s) CRetErr (received s)]
              else [mkSt (done_ s) (buf s) (closed s) (pull s) (remaining s) (drain s) CRecv (received s)]
   | CRecv =>
       match buf s with
       | MData :: rest => [mkSt (done_ s) rest (closed s) (pull s) (remaining s) (drain s) CIdle (S (received s))]
       | MErr :: rest => [mkSt (done_ s) rest (closed s) (pull s) (remaining s) (drain s) CRetErr (received s)]
       | [] => if closed s then [mkSt (done_ s) [] (closed s) (pull s) (remaining s) (drain s) CAfterLoop (received s)] else []
       end
   | CAfterLoop =>
       if recheck && done_ s then [mkSt (done_ s) (buf s) (closed s) (pull s) (remaining s) (drain s) CRetErr (received s)]
       else [mkSt (done_ s) (buf s) (closed s) (pull s) (remaining s) (drain s) CRetOk (received s)]
   | CRetOk | CRetErr => []
   end)
  ++
  (* pull goroutine *)
  (match pull s with
   | PTop => if done_ s then [mkSt (done_ s) (buf s) (closed s) PSendErr (remaining s) (drain s) (cons s) (received s)]
             else [mkSt (done_ s) (buf s) (closed s) PCalling (remaining s) (drain s) (cons s) (received s)]
   | PCalling =>
       (* the child fails - because it observes a cancelled context, or on its own (a storage error) - or answers *)
       [mkSt (done_ s) (buf s) (closed s) PSendErr (remaining s) (drain s) (cons s) (received s)]
       ++ match remaining s with
          | S r => [mkSt (done_ s) (buf s) (closed s) PSendData r (drain s) (cons s) (received s)]
          | O => [mkSt (done_ s) (buf s) (closed s) PClose 0 (drain s) (cons s) (received s)]
          end
   | PSendData => if Nat.ltb (length (buf s)) cap
                  then [mkSt (done_ s) (buf s ++ [MData]) (closed s) PTop (remaining s) (drain s) (cons s) (received s)] else []
   | PSendErr => if Nat.ltb (length (buf s)) cap
                 then [mkSt (done_ s) (buf s ++ [MErr]) (closed s) PClose (remaining s) (drain s) (cons s) (received s)] else []
   | PClose => [mkSt (done_ s) (buf s) true PDone (remaining s) (drain s) (cons s) (received s)]
   | PDone => []
   end)
  ++
  (* drain goroutine *)
  (match drain s with
   | DWait => if done_ s then [mkSt (done_ s) (buf s) (closed s) (pull s) (remaining s) DDrain (cons s) (received s)] else []
   | DDrain =>
       match buf s with
       | _ :: rest => [mkSt (done_ s) rest (closed s) (pull s) (remaining s) DDrain (cons s) (received s)]
       | [] => if closed s then [mkSt (done_ s) [] (closed s) (pull s) (remaining s) DStopped (cons s) (received s)] else []
       end
   | DStopped => []
   end).

(* Exec's deferred cancel: once the consumer has returned the context is done *)
Definition after_return (s : st) : st :=
  if finished_consumer s then mkSt true (buf s) (closed s) (pull s) (remaining s) (drain s) (cons s) (received s) else s.

Definition next_states (recheck : bool) (s : st) : list st := map after_return (steps recheck s).

(* ---- decidable equality and exploration -------------------------------- *)

Definition msg_eqb (a b : msg) : bool := match a, b with MData, MData | MErr, MErr => true | _, _ => false end.
Definition pull_eqb (a b : pullst) : bool :=
  match a, b with PTop, PTop | PCalling, PCalling | PSendData, PSendData | PSendErr, PSendErr | PClose, PClose | PDone, PDone => true | _, _ => false end.
Definition drain_eqb (a b : drainst) : bool :=
  match a, b with DWait, DWait | DDrain, DDrain | DStopped, DStopped => true | _, _ => false end.
Definition cons_eqb (a b : consst) : bool :=
  match a, b with CIdle, CIdle | CNext, CNext | CRecv, CRecv | CAfterLoop, CAfterLoop | CRetOk, CRetOk | CRetErr, CRetErr => true | _, _ => false end.

Fixpoint msgs_eqb (a b : list msg) : bool :=
  match a, b with
  | [], [] => true
  | x :: r, y :: r' => msg_eqb x y && msgs_eqb r r'
  | _, _ => false
  end.

Definition st_eqb (a b : st) : bool :=
  Bool.eqb (done_ a) (done_ b) && msgs_eqb (buf a) (buf b) && Bool.eqb (closed a) (closed b) && pull_eqb (pull a) (pull b)
  && Nat.eqb (remaining a) (remaining b) && drain_eqb (drain a) (drain b) && cons_eqb (cons a) (cons b)
  && Nat.eqb (received a) (received b).

(* states are numbered so that the visited set can be a PositiveSet *)
Definition pull_code (p : pullst) : N :=
  match p with PTop => 0 | PCalling => 1 | PSendData => 2 | PSendErr => 3 | PClose => 4 | PDone => 5 end%N.
Definition drain_code (d : drainst) : N := match d with DWait => 0 | DDrain => 1 | DStopped => 2 end%N.
Definition cons_code (c : consst) : N :=
  match c with CIdle => 0 | CNext => 1 | CRecv => 2 | CAfterLoop => 3 | CRetOk => 4 | CRetErr => 5 end%N.
Fixpoint buf_code (b : list msg) : N :=
  match b with
  | [] => 0
  | MData :: r => 1 + 2 * buf_code r
  | MErr :: r => 2 + 2 * buf_code r
  end%N.

Definition code (s : st) : positive :=
  N.succ_pos
    ((if done_ s then 1 else 0) + 2 * ((if closed s then 1 else 0) + 2 * (pull_code (pull s) + 6 * (drain_code (drain s) + 3 *
       (cons_code (cons s) + 6 * (N.of_nat (remaining s) + 8 * (N.of_nat (received s) + 8 * buf_code (buf s))))))))%N.

Definition add_new (cands : list st) (seen : PositiveSet.t) : list st * PositiveSet.t :=
  fold_left (fun '(acc, set) c =>
               let k := code c in
               if PositiveSet.mem k set then (acc, set) else (c :: acc, PositiveSet.add k set))
            cands ([], seen).

(* breadth-first closure; [fuel] bounds the number of rounds *)
Fixpoint explore (recheck : bool) (fuel : nat) (frontier : list st) (seen : PositiveSet.t) (visited : list st)
  : list st * PositiveSet.t * bool :=
  match fuel with
  | O => (visited, seen, match frontier with [] => true | _ => false end)
  | S f =>
      match frontier with
      | [] => (visited, seen, true)
      | _ =>
          let '(new, seen') := add_new (flat_map (next_states recheck) frontier) seen in
          explore recheck f new seen' (new ++ visited)
      end
  end.

Definition init (total : nat) : st := mkSt false [] false PTop total DWait CIdle 0.

Definition reachable3 (recheck : bool) (total : nat) : list st * PositiveSet.t * bool :=
  explore recheck 200 [init total] (PositiveSet.add (code (init total)) PositiveSet.empty) [init total].

Definition reachable (recheck : bool) (total : nat) : list st * bool :=
  let '(l, _, c) := reachable3 recheck total in (l, c).

(* ---- the properties, as decidable checks over the reachable states ------ *)

(* no successful partial result *)
Definition safe (total : nat) (s : st) : bool :=
  match cons s with CRetOk => Nat.eqb (received s) total | _ => true end.

(* a state without successors is final: the consumer has returned and both
   goroutines have terminated *)
Definition quiescent_or_moving (recheck : bool) (s : st) : bool :=
  match next_states recheck s with
  | [] => finished_consumer s && pull_eqb (pull s) PDone && drain_eqb (drain s) DStopped
  | _ => true
  end.

(* the channel never exceeds its capacity *)
Definition within_capacity (s : st) : bool := Nat.leb (length (buf s)) cap.

(* within the bounds used by [code], distinct states have distinct codes *)
Definition in_code_bounds (s : st) : bool :=
  Nat.leb (remaining s) 7 && Nat.leb (received s) 7 && Nat.leb (length (buf s)) 2.

Definition check_all (recheck : bool) (total : nat) : bool :=
  let '(states, seen, complete) := reachable3 recheck total in
  complete
  && forallb (safe total) states
  && forallb (quiescent_or_moving recheck) states
  && forallb within_capacity states
  && forallb in_code_bounds states
  (* closed under the transition relation *)
  && forallb (fun s => forallb (fun s' => PositiveSet.mem (code s') seen) (next_states recheck s)) states.

(* ---- the same exploration without Exec's immediate deferred cancel: the
   context is cancelled only by the environment transition, at any moment
   (what a consumer driving the operator directly can observe) --------------- *)

Fixpoint explore_raw (recheck : bool) (fuel : nat) (frontier : list st) (seen : PositiveSet.t) (visited : list st)
  : list st * PositiveSet.t * bool :=
  match fuel with
  | O => (visited, seen, match frontier with [] => true | _ => false end)
  | S f =>
      match frontier with
      | [] => (visited, seen, true)
      | _ =>
          let '(new, seen') := add_new (flat_map (steps recheck) frontier) seen in
          explore_raw recheck f new seen' (new ++ visited)
      end
  end.

Definition reachable3_raw (recheck : bool) (total : nat) : list st * PositiveSet.t * bool :=
  explore_raw recheck 200 [init total] (PositiveSet.add (code (init total)) PositiveSet.empty) [init total].

Definition quiescent_or_moving_raw (recheck : bool) (s : st) : bool :=
  match steps recheck s with
  | [] => finished_consumer s && pull_eqb (pull s) PDone && drain_eqb (drain s) DStopped
  | _ => true
  end.

Definition check_all_raw (recheck : bool) (total : nat) : bool :=
  let '(states, seen, complete) := reachable3_raw recheck total in
  complete
  && forallb (safe total) states
  && forallb (quiescent_or_moving_raw recheck) states
  && forallb within_capacity states
  && forallb in_code_bounds states
  && forallb (fun s => forallb (fun s' => PositiveSet.mem (code s') seen) (steps recheck s)) states.
