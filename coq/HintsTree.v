(* C16, second half: the hinted time range of every select is sufficient. For an operator tree,
   a storage that omits, for every selector of the plan (also those evaluated by remote engines),
   every sample outside [hints.Start, hints.End] of that selector's select - the range computed by
   getTimeRangesForVectorSelector, Hints.sel_range - leaves the stream of every node, and so the
   query's result, unchanged: instant-vector selectors (lookback), matrix selectors (range),
   offsets, @ pins, step-invariant subtrees; every window, shard count and batch size. *)
From Coq Require Import List ZArith NArith Bool Lia.
From Verif Require Import Ast Base Grid Select SelectProofs Compose Range MatrixRun Bin Hints HintsProofs Trees.
Import ListNotations.
Open Scope Z_scope.

(* the hinted range of a selector with offset [off] and pin [pin] under a function of range
   [eval_range] (0: an instant-vector selector) *)
Definition leaf_range (w : window) (lb eval_range off : Z) (pin : option Z) : Z * Z :=
  let '(s, e) := match pin with Some t => (t, t) | None => (w_start w, w_end w) end in
  ((if eval_range =? 0 then s - lb else s - eval_range) - off, e - off).

(* it is the range the planner puts into the select (both engines) *)
Lemma leaf_range_is_sel_range w lb v r : leaf_range w lb r (vorig v) (vat v) = sel_range w lb v r.
Proof. unfold leaf_range, sel_range. destruct (vat v); reflexivity. Qed.

Definition clip_leaf (w : window) (lb eval_range off : Z) (pin : option Z) (sers : list (list sample)) : list (list sample) :=
  let '(lo, hi) := leaf_range w lb eval_range off pin in map (clip lo hi) sers.

(* the storage of every selector trimmed to that selector's hinted range *)
Fixpoint jclip (w : window) (lb : Z) (t : jtree) : jtree :=
  match t with
  | JLeaf ls sers off pin => JLeaf ls (clip_leaf w lb 0 off pin sers) off pin
  | JRange keep fn range ls sers off pin => JRange keep fn range ls (clip_leaf w lb range off pin sers) off pin
  | JJoin p l r => JJoin p (jclip w lb l) (jclip w lb r)
  | JMap drops f t1 => JMap drops f (jclip w lb t1)
  | JCount conv without grouping t1 => JCount conv without grouping (jclip w lb t1)
  | JAgg init add without grouping t1 => JAgg init add without grouping (jclip w lb t1)
  | JTopk bottom k without grouping t1 => JTopk bottom k without grouping (jclip w lb t1)
  | JRemote t1 => JRemote (jclip w lb t1)
  | JConcat l r => JConcat (jclip w lb l) (jclip w lb r)
  | JInvariant t1 => JInvariant (jclip w lb t1)
  end.

Lemma clip_sorted lo hi ss : sorted_ts ss -> sorted_ts (clip lo hi ss).
Proof.
  unfold clip. induction ss as [|x ss IH]; intros Hs; [exact I|].
  pose proof (sorted_ts_lt x ss Hs) as Hlt. specialize (IH (sorted_ts_tail x ss Hs)).
  cbn [filter]. destruct ((lo <=? ts x) && (ts x <=? hi)); [|exact IH].
  split; [|exact IH].
  destruct (filter _ ss) as [|y ys] eqn:E; [exact I|].
  assert (Hy : In y (filter (fun x0 => (lo <=? ts x0) && (ts x0 <=? hi)) ss)) by (rewrite E; left; reflexivity).
  apply filter_In in Hy. rewrite Forall_forall in Hlt. apply Hlt. tauto.
Qed.

(* the points of a window inside the kept range are all kept *)
Lemma win_points_clip mint maxt lo hi ss : lo <= mint -> maxt <= hi ->
  win_points mint maxt (clip lo hi ss) = win_points mint maxt ss.
Proof.
  intros Hlo Hhi. unfold clip. induction ss as [|x ss IH]; [reflexivity|]. cbn [filter].
  destruct ((lo <=? ts x) && (ts x <=? hi)) eqn:E.
  - cbn [win_points]. rewrite IH. reflexivity.
  - cbn [win_points]. rewrite IH. destruct (sv x) as [v|]; [|reflexivity].
    destruct ((mint <=? ts x) && (ts x <=? maxt)) eqn:E2; [|reflexivity].
    apply andb_true_iff in E2. destruct E2 as [A B]. apply Z.leb_le in A. apply Z.leb_le in B.
    apply andb_false_iff in E. destruct E as [E|E]; apply Z.leb_gt in E; lia.
Qed.

Lemma jseries_clip w lb t : jseries (jclip w lb t) = jseries t.
Proof.
  induction t as [ls sers off pin|keep fn range ls sers off pin|p l IHl r IHr|drops f t IH|conv without grouping t IH|init add without grouping t IH|bottom k without grouping t IH|t IH|l IHl r IHr|t IH];
    cbn [jclip jseries]; try reflexivity; try (rewrite ?IHl, ?IHr, ?IH; reflexivity).
Qed.

Lemma jpinned_clip w lb t : jpinned (jclip w lb t) <-> jpinned t.
Proof.
  induction t as [ls sers off pin|keep fn range ls sers off pin|p l IHl r IHr|drops f t IH|conv without grouping t IH|init add without grouping t IH|bottom k without grouping t IH|t IH|l IHl r IHr|t IH];
    cbn [jclip jpinned]; try reflexivity; try exact IH; try (rewrite IHl, IHr; reflexivity).
Qed.

Lemma clip_leaf_length w lb r off pin sers : length (clip_leaf w lb r off pin sers) = length sers.
Proof. unfold clip_leaf. destruct (leaf_range w lb r off pin). apply map_length. Qed.

Lemma clip_leaf_sorted w lb r off pin sers : Forall sorted_ts sers -> Forall sorted_ts (clip_leaf w lb r off pin sers).
Proof.
  unfold clip_leaf. destruct (leaf_range w lb r off pin) as [lo hi]. intros H.
  apply Forall_forall. intros ss Hss. apply in_map_iff in Hss. destruct Hss as [ss0 [<- H0]].
  apply clip_sorted. rewrite Forall_forall in H. apply H. assumption.
Qed.

Lemma jokw_clip w lb t : forall single, jokw single t -> jokw single (jclip w lb t).
Proof.
  induction t as [ls sers off pin|keep fn range ls sers off pin|p l IHl r IHr|drops f t IH|conv without grouping t IH|init add without grouping t IH|bottom k without grouping t IH|t IH|l IHl r IHr|t IH];
    intros single Hok; cbn [jclip jokw] in *.
  - destruct Hok as (Hl & Hs & Hp). rewrite clip_leaf_length. split; [assumption|]. split; [apply clip_leaf_sorted; assumption|assumption].
  - destruct Hok as (Hl & Hs & Hr & Hp). rewrite clip_leaf_length. split; [assumption|]. split; [apply clip_leaf_sorted; assumption|]. split; assumption.
  - destruct Hok as (Ha & Hb & Hu & Hi). rewrite !jseries_clip. split; [apply IHl; assumption|]. split; [apply IHr; assumption|]. split; assumption.
  - apply IH; assumption.
  - apply IH; assumption.
  - destruct Hok as (Ha & L1 & L2). split; [apply IH; assumption|]. split; assumption.
  - apply IH; assumption.
  - apply IH; assumption.
  - destruct Hok as (Ha & Hb). split; [apply IHl; assumption|apply IHr; assumption].
  - destruct Hok as (Ha & Hp). split; [apply IH; assumption|apply jpinned_clip; assumption].
Qed.

(* at every time of the window, every node's step vector is the one computed from the whole storage *)
Lemma jdenote_clip w lb t : 0 <= lb ->
  forall single, jokw single t -> forall ts, w_start w <= ts <= w_end w ->
  jdenote lb (jclip w lb t) ts = jdenote lb t ts.
Proof.
  intros Hlb.
  induction t as [ls sers off pin|keep fn range ls sers off pin|p l IHl r IHr|drops f t IH|conv without grouping t IH|init add without grouping t IH|bottom k without grouping t IH|t IH|l IHl r IHr|t IH];
    intros single Hok ts Hts; cbn [jclip jdenote] in *; rewrite ?jseries_clip.
  - destruct Hok as (_ & Hs & _). f_equal. unfold select_step. f_equal.
    rewrite Forall_forall in Hs.
    destruct pin as [a|]; unfold clip_leaf, leaf_range; cbn [eval_time Z.eqb]; rewrite map_map; apply map_ext_in; intros ss Hss;
      apply pick_clip; try (apply Hs; assumption); simpl; lia.
  - destruct Hok as (_ & Hs & Hr & _). f_equal. unfold range_step. f_equal.
    destruct pin as [a|]; unfold clip_leaf, leaf_range; cbn [eval_time]; rewrite map_map; apply map_ext; intros ss;
      unfold range_value, window_at; f_equal; apply win_points_clip; destruct (Z.eqb_spec range 0); lia.
  - destruct Hok as (Ha & Hb & _). rewrite (IHl single Ha ts Hts), (IHr single Hb ts Hts). reflexivity.
  - rewrite (IH single Hok ts Hts). reflexivity.
  - rewrite (IH single Hok ts Hts). reflexivity.
  - destruct Hok as (Ha & _). rewrite (IH single Ha ts Hts). reflexivity.
  - rewrite (IH single Hok ts Hts). reflexivity.
  - rewrite (IH single Hok ts Hts). reflexivity.
  - destruct Hok as (Ha & Hb). rewrite (IHl single Ha ts Hts), (IHr single Hb ts Hts). reflexivity.
  - destruct Hok as (Ha & _). apply (IH true Ha ts Hts).
Qed.

Lemma grid_in_window w ts : wf_window w -> In ts (grid w) -> w_start w <= ts <= w_end w.
Proof.
  intros Hw Hin. unfold grid in Hin. apply in_map_iff in Hin. destruct Hin as [k [<- Hk]]. apply in_seq in Hk.
  unfold grid_at. destruct Hw as (Hse & Hst & H0).
  destruct (Z.eq_dec (w_step w) 0) as [E|NE].
  - rewrite E. lia.
  - assert (Hlt : Z.of_nat k < total_steps w).
    { destruct Hk as [_ Hk]. simpl in Hk. pose proof (total_steps_pos 1%nat w ltac:(lia) (conj Hse (conj Hst H0))). lia. }
    pose proof (le_end_iff 1%nat w ltac:(lia) k ltac:(lia)) as Iff. split; [nia|]. apply Iff. exact Hlt.
Qed.

(* C16: the engine's stream over the trimmed storage is its stream over the whole storage *)
Theorem hinted_ranges_sufficient cf w t :
  (0 < c_shards cf)%nat -> (0 < c_batch cf)%nat -> 0 <= c_lookback cf -> wf_window w -> noT < w_start w -> jok t ->
  jrun cf w (jclip w (c_lookback cf) t) = jrun cf w t.
Proof.
  intros HN HB Hlb Hw Hs Hok.
  destruct (jtree_matches_reference cf w HN HB Hlb Hw Hs t Hok) as [E _].
  destruct (jtree_matches_reference cf w HN HB Hlb Hw Hs (jclip w (c_lookback cf) t) (jokw_clip w (c_lookback cf) t false Hok)) as [E' _].
  rewrite E, E'. f_equal. apply map_ext_in. intros ts Hts. f_equal.
  apply (jdenote_clip w (c_lookback cf) t Hlb false Hok ts). apply grid_in_window; assumption.
Qed.

(* ... and one sample less is too much: the sample at the hinted start is the one a selector at the
   first step needs (the range is tight at its lower end) *)
Example hinted_range_is_tight :
  let w := mkW 1000 1060 30 in
  let t := JLeaf [[(0%N, 1%N)]] [[mkS 700 (Some 5); mkS 1050 (Some 6)]] 0 None in
  leaf_range w 300 0 0 None = (700, 1060) /\
  jrun (mkCfg 1 10 300) w t = inl [(1000, [(0%nat, 5)]); (1030, []); (1060, [(0%nat, 6)])] /\
  jrun (mkCfg 1 10 300) w (JLeaf [[(0%N, 1%N)]] [clip 701 1060 [mkS 700 (Some 5); mkS 1050 (Some 6)]] 0 None)
    = inl [(1000, []); (1030, []); (1060, [(0%nat, 6)])].
Proof. cbv zeta. repeat split; vm_compute; reflexivity. Qed.
