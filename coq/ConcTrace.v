(* Observable traces of the concurrency operator (C14): the transition system
   of Conc.v with labels on the steps a test can see from outside - the calls
   into the child operator and their results, what the consumer's Next returns,
   the consumer's final verdict, and the begin and end of a cancel() call.
   A goroutine logs an event after (or, for the child's results, just before)
   the step it describes, so other goroutines may move between a step and its
   log entry: every goroutine carries a pending label that it emits before its
   own next step. [accepts] decides whether a recorded log is a trace of the
   system; the harness records logs of the real operator under a scripted child
   and a consumer that mirrors Exec's loop. *)
From Coq Require Import List ZArith NArith PArith Bool Lia MSets.MSetPositive.
From Verif Require Import Conc.
Import ListNotations.

Inductive label :=
| LCancelBegin | LCancelEnd                       (* around cancel() *)
| LChildCall | LChildData | LChildNil | LChildErr (* the child operator's Next *)
| LKData | LKErr | LKDone                         (* the operator's Next, seen by the consumer *)
| LKOk | LKFinalErr.                              (* the consumer's verdict after the loop *)

Definition label_code (l : label) : N :=
  match l with
  | LCancelBegin => 1 | LCancelEnd => 2 | LChildCall => 3 | LChildData => 4 | LChildNil => 5 | LChildErr => 6
  | LKData => 7 | LKErr => 8 | LKDone => 9 | LKOk => 10 | LKFinalErr => 11
  end%N.

Definition label_eqb (a b : label) : bool := N.eqb (label_code a) (label_code b).

Definition olabel_code (o : option label) : N := match o with None => 0%N | Some l => label_code l end.

Record lst := mkL {
  base : st;
  ppend : option label;      (* the producer goroutine's unlogged event *)
  cpend : option label;      (* the consumer's *)
  phase : nat }.             (* cancel(): 0 not called, 1 running, 2 returned *)

Definition with_base (x : lst) (s : st) : lst := mkL s (ppend x) (cpend x) (phase x).

Definition set_cons (s : st) (c : consst) : st :=
  mkSt (done_ s) (buf s) (closed s) (pull s) (remaining s) (drain s) c (received s).
Definition set_pull (s : st) (p : pullst) : st :=
  mkSt (done_ s) (buf s) (closed s) p (remaining s) (drain s) (cons s) (received s).

(* one step: the label emitted (None = internal) and the successor *)
Definition lsteps (recheck : bool) (x : lst) : list (option label * lst) :=
  let s := base x in
  (* cancel() *)
  (match phase x with
   | 0 => [(Some LCancelBegin, mkL s (ppend x) (cpend x) 1)]
   | 1 => if done_ s then [(Some LCancelEnd, mkL s (ppend x) (cpend x) 2)]
          else [(None, with_base x (mkSt true (buf s) (closed s) (pull s) (remaining s) (drain s) (cons s) (received s)))]
   | _ => []
   end)
  ++
  (* the consumer: first its pending log entry, then its next step *)
  (match cpend x with
   | Some l => [(Some l, mkL s (ppend x) None (phase x))]
   | None =>
       match cons s with
       | CIdle => if done_ s then [(None, mkL (set_cons s CRetErr) (ppend x) (Some LKErr) (phase x))]
                  else [(None, with_base x (set_cons s CNext))]
       | CNext => if done_ s then [(None, mkL (set_cons s CRetErr) (ppend x) (Some LKErr) (phase x))]
                  else [(None, with_base x (set_cons s CRecv))]
       | CRecv =>
           match buf s with
           | MData :: rest =>
               [(None, mkL (mkSt (done_ s) rest (closed s) (pull s) (remaining s) (drain s) CIdle (S (received s)))
                           (ppend x) (Some LKData) (phase x))]
           | MErr :: rest =>
               [(None, mkL (mkSt (done_ s) rest (closed s) (pull s) (remaining s) (drain s) CRetErr (received s))
                           (ppend x) (Some LKErr) (phase x))]
           | [] => if closed s then [(None, mkL (set_cons s CAfterLoop) (ppend x) (Some LKDone) (phase x))] else []
           end
       | CAfterLoop =>
           if recheck && done_ s then [(None, mkL (set_cons s CRetErr) (ppend x) (Some LKFinalErr) (phase x))]
           else [(None, mkL (set_cons s CRetOk) (ppend x) (Some LKOk) (phase x))]
       | CRetOk | CRetErr => []
       end
   end)
  ++
  (* the producer goroutine *)
  (match ppend x with
   | Some l => [(Some l, mkL s None (cpend x) (phase x))]
   | None =>
       match pull s with
       | PTop => if done_ s then [(None, with_base x (set_pull s PSendErr))]
                 else [(None, mkL (set_pull s PCalling) (Some LChildCall) (cpend x) (phase x))]
       | PCalling =>
           [(None, mkL (set_pull s PSendErr) (Some LChildErr) (cpend x) (phase x))]
           ++ match remaining s with
              | S r => [(None, mkL (mkSt (done_ s) (buf s) (closed s) PSendData r (drain s) (cons s) (received s))
                                   (Some LChildData) (cpend x) (phase x))]
              | O => [(None, mkL (mkSt (done_ s) (buf s) (closed s) PClose 0 (drain s) (cons s) (received s))
                                 (Some LChildNil) (cpend x) (phase x))]
              end
       | PSendData => if Nat.ltb (length (buf s)) cap
                      then [(None, with_base x (mkSt (done_ s) (buf s ++ [MData]) (closed s) PTop (remaining s) (drain s) (cons s) (received s)))]
                      else []
       | PSendErr => if Nat.ltb (length (buf s)) cap
                     then [(None, with_base x (mkSt (done_ s) (buf s ++ [MErr]) (closed s) PClose (remaining s) (drain s) (cons s) (received s)))]
                     else []
       | PClose => [(None, with_base x (mkSt (done_ s) (buf s) true PDone (remaining s) (drain s) (cons s) (received s)))]
       | PDone => []
       end
   end)
  ++
  (* the drain goroutine *)
  (match drain s with
   | DWait => if done_ s then [(None, with_base x (mkSt (done_ s) (buf s) (closed s) (pull s) (remaining s) DDrain (cons s) (received s)))] else []
   | DDrain =>
       match buf s with
       | _ :: rest => [(None, with_base x (mkSt (done_ s) rest (closed s) (pull s) (remaining s) DDrain (cons s) (received s)))]
       | [] => if closed s then [(None, with_base x (mkSt (done_ s) [] (closed s) (pull s) (remaining s) DStopped (cons s) (received s)))] else []
       end
   | DStopped => []
   end).

(* ---- state sets ------------------------------------------------------------ *)

Definition lcode (x : lst) : positive :=
  N.succ_pos (N.of_nat (phase x) + 3 * (olabel_code (ppend x) + 12 * (olabel_code (cpend x) + 12 * Npos (code (base x)))))%N.

Definition add_new_l (cands : list lst) (seen : PositiveSet.t) : list lst * PositiveSet.t :=
  fold_left (fun '(acc, set) c =>
               let k := lcode c in
               if PositiveSet.mem k set then (acc, set) else (c :: acc, PositiveSet.add k set))
            cands ([], seen).

Definition tau_succ (recheck : bool) (x : lst) : list lst :=
  flat_map (fun ly => match fst ly with None => [snd ly] | Some _ => [] end) (lsteps recheck x).

Definition lab_succ (recheck : bool) (l : label) (x : lst) : list lst :=
  flat_map (fun ly => match fst ly with Some l' => if label_eqb l l' then [snd ly] else [] | None => [] end) (lsteps recheck x).

(* closure of a set of states under internal steps *)
Fixpoint tau_close (recheck : bool) (fuel : nat) (frontier : list lst) (seen : PositiveSet.t) (acc : list lst) : list lst :=
  match fuel with
  | O => acc
  | S f =>
      match frontier with
      | [] => acc
      | _ => let '(new, seen') := add_new_l (flat_map (tau_succ recheck) frontier) seen in
             tau_close recheck f new seen' (new ++ acc)
      end
  end.

Definition close (recheck : bool) (xs : list lst) : list lst :=
  let '(start, seen) := add_new_l xs PositiveSet.empty in
  tau_close recheck 400 start seen start.

Definition linit (total : nat) : lst := mkL (init total) None None 0.

(* the states the system can be in after showing the trace *)
Fixpoint after (recheck : bool) (cur : list lst) (trace : list label) : list lst :=
  match trace with
  | [] => cur
  | l :: rest => after recheck (close recheck (flat_map (lab_succ recheck l) cur)) rest
  end.

Definition accepts (recheck : bool) (total : nat) (trace : list label) : bool :=
  match after recheck (close recheck [linit total]) trace with [] => false | _ => true end.

(* ---- the labelled system refines Conc.steps --------------------------------- *)

(* every step either is a log entry (the underlying state does not move) or a
   cancel bookkeeping step, or moves the underlying state by a step of Conc.steps *)
Definition step_refines (recheck : bool) (x : lst) (ly : option label * lst) : bool :=
  let y := snd ly in
  st_eqb (base y) (base x) || existsb (st_eqb (base y)) (steps recheck (base x)).

Fixpoint explore_l (recheck : bool) (fuel : nat) (frontier : list lst) (seen : PositiveSet.t) (visited : list lst)
  : list lst * bool :=
  match fuel with
  | O => (visited, match frontier with [] => true | _ => false end)
  | S f =>
      match frontier with
      | [] => (visited, true)
      | _ => let '(new, seen') := add_new_l (flat_map (fun x => map snd (lsteps recheck x)) frontier) seen in
             explore_l recheck f new seen' (new ++ visited)
      end
  end.

Definition reachable_l (recheck : bool) (total : nat) : list lst * bool :=
  explore_l recheck 400 [linit total] (PositiveSet.add (lcode (linit total)) PositiveSet.empty) [linit total].

Definition refinement_ok (recheck : bool) (total : nat) : bool :=
  let '(states, complete) := reachable_l recheck total in
  complete && forallb (fun x => forallb (step_refines recheck x) (lsteps recheck x)) states
  (* the underlying states are among those explored by Conc (raw) *)
  && (let '(_, seen, _) := reachable3_raw recheck total in
      forallb (fun x => PositiveSet.mem (code (base x)) seen) states).
