(* The integer instances of the range functions and accumulators used by the tree
   correspondence (values are 4 * value); no floats, so that property files can refer to them. *)
From Coq Require Import List ZArith NArith Bool Lia.
From Verif Require Import Base Range RangeOrd.
Import ListNotations.
Open Scope Z_scope.

(* range functions on 4*value: 0 count_over_time, 1 last_over_time, 2 max_over_time,
   3 min_over_time, 4 sum_over_time, 5 changes, 6 resets, 7 present_over_time; the
   order-based ones are the generic kernels of RangeOrd.v on the integers *)
Definition zrange (code : N) (_ : Z) (pts : list point) : option Z :=
  match pts with
  | [] => None
  | p :: rest =>
      let vs := map snd rest in
      Some match code with
           | 0%N => 4 * Z.of_nat (length pts)
           | 1%N => snd (last pts p)
           | 2%N => max_over Z Z.ltb (fun _ => false) (snd p) (map snd pts)
           | 3%N => min_over Z Z.ltb (fun _ => false) (snd p) (map snd pts)
           | 4%N => fold_left Z.add (map snd pts) 0
           | 5%N => 4 * Z.of_nat (changes_from Z (fun _ => false) Z.eqb (snd p) vs)
           | 6%N => 4 * Z.of_nat (resets_from Z Z.ltb (snd p) vs)
           | _ => 4
           end
  end.

(* aggregation accumulators on 4*value: 0 sum, 1 max, 2 min, 3 group *)
Definition zinit (code : N) (v : Z) : Z := match code with 3%N => 4 | _ => v end.
Definition zadd (code : N) (a v : Z) : Z :=
  match code with 0%N => a + v | 1%N => Z.max a v | 2%N => Z.min a v | _ => a end.

(* the four accumulators satisfy the hypotheses of the JAgg node (Trees.jok) *)
Lemma zagg_laws (code : N) : In code [0; 1; 2; 3]%N ->
  (forall a b, zadd code (zinit code a) b = zadd code (zinit code b) a) /\
  (forall x a b, zadd code (zadd code x a) b = zadd code (zadd code x b) a).
Proof.
  intros [<-|[<-|[<-|[<-|[]]]]]; unfold zadd, zinit; split; intros; try reflexivity; lia.
Qed.

