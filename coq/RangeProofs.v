(* Proofs about Range.v (property C03). *)
From Coq Require Import List ZArith NArith Bool Lia.
From Verif Require Import Base Select Range.
Import ListNotations.
Open Scope Z_scope.

(* what the specification window contains *)
Theorem win_points_meaning mint maxt ss t v :
  In (t, v) (win_points mint maxt ss) <->
  exists x, In x ss /\ ts x = t /\ sv x = Some v /\ mint <= t <= maxt.
Proof.
  induction ss as [|x ss IH]; simpl.
  - split; [tauto|]. intros [x [[] _]].
  - assert (Hrest : (exists y, In y ss /\ ts y = t /\ sv y = Some v /\ mint <= t <= maxt) ->
                    exists y, (x = y \/ In y ss) /\ ts y = t /\ sv y = Some v /\ mint <= t <= maxt).
    { intros [y [Hy Hr]]. exists y. tauto. }
    destruct (sv x) as [vx|] eqn:Ev.
    + destruct (Z.leb_spec mint (ts x)) as [H1|H1], (Z.leb_spec (ts x) maxt) as [H2|H2]; simpl.
      * split.
        -- intros [Hq|Hq]; [inversion Hq; subst; exists x; repeat split; auto; lia|].
           apply Hrest. apply IH. assumption.
        -- intros [y [[->|Hy] [Ht [Hv Hr]]]].
           ++ left. rewrite Ev in Hv. inversion Hv; subst. reflexivity.
           ++ right. apply IH. exists y. tauto.
      * rewrite IH. split; [exact Hrest|]. intros [y [[->|Hy] [Ht [Hv Hr]]]]; [lia|exists y; tauto].
      * rewrite IH. split; [exact Hrest|]. intros [y [[->|Hy] [Ht [Hv Hr]]]]; [lia|exists y; tauto].
      * rewrite IH. split; [exact Hrest|]. intros [y [[->|Hy] [Ht [Hv Hr]]]]; [lia|exists y; tauto].
    + rewrite IH. split; [exact Hrest|]. intros [y [[->|Hy] [Ht [Hv Hr]]]]; [congruence|exists y; tauto].
Qed.

(* the window's points are in timestamp order *)
Lemma win_points_sorted mint maxt ss : sorted_ts ss ->
  forall i j d, (i < j < length (win_points mint maxt ss))%nat ->
  fst (nth i (win_points mint maxt ss) d) < fst (nth j (win_points mint maxt ss) d).
Proof.
  induction ss as [|x ss IH]; intros Hs i j d Hij; simpl in *; [lia|].
  pose proof (sorted_ts_tail _ _ Hs) as Hs'. pose proof (sorted_ts_lt _ _ Hs) as Hlt.
  destruct (sv x) as [vx|]; [|apply IH; assumption].
  destruct ((mint <=? ts x) && (ts x <=? maxt)); [|apply IH; assumption].
  simpl in Hij. destruct i as [|i].
  - destruct j as [|j]; [lia|]. simpl.
    assert (Hin : In (nth j (win_points mint maxt ss) d) (win_points mint maxt ss)) by (apply nth_In; lia).
    destruct (nth j (win_points mint maxt ss) d) as [t v] eqn:En. simpl.
    apply win_points_meaning in Hin. destruct Hin as [y [Hy [Ht _]]].
    rewrite Forall_forall in Hlt. specialize (Hlt y Hy). lia.
  - destruct j as [|j]; [lia|]. simpl. apply IH; [assumption|lia].
Qed.

(* the first step of a query (no previous points, fresh iterator) on a series
   whose samples all lie at or after the window's start *)
Example first_step_example :
  let ss := [mkS 100 (Some 1); mkS 130 None; mkS 160 (Some 2); mkS 200 (Some 3); mkS 260 (Some 4)] in
  snd (ms_scan 60 0 30 (ms_reset ss 60) [200; 230; 260; 290; 320; 350]) =
  map (window_at 60 0 ss) [200; 230; 260; 290; 320; 350] /\
  snd (ms_scan 30 10 60 (ms_reset ss 30) [200; 260; 320]) =
  map (window_at 30 10 ss) [200; 260; 320].
Proof. split; vm_compute; reflexivity. Qed.
