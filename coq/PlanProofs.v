(* Proofs about Plan.v (property C08). *)
From Coq Require Import List String ZArith NArith Bool Lia.
From Verif Require Import Ast Generated Plan.
Import ListNotations.
Open Scope string_scope.

(* ---- planning is total and only ever fails as unsupported / not implemented *)

Lemma first_err_no_other rs :
  Forall (fun r => r <> Err POther) rs -> first_err rs <> Err POther.
Proof.
  induction 1 as [|r rs Hr _ IH]; simpl; [discriminate|].
  destruct r as [[]|e]; [exact IH|exact Hr].
Qed.

Lemma bind_no_other r k : r <> Err POther -> k <> Err POther -> bind r k <> Err POther.
Proof. destruct r as [[]|e]; simpl; auto. Qed.

Lemma function_call_no_other f : function_call f <> Err POther.
Proof.
  unfold function_call. destruct (mem_str f engine_funcs); [discriminate|].
  destruct (fn_info f); discriminate.
Qed.

Lemma function_operator_ok_no_other args : function_operator_ok args <> Err POther.
Proof.
  unfold function_operator_ok. destruct args as [|a0 rest]; [discriminate|].
  destruct (etype _); discriminate.
Qed.

Lemma agg_ok_no_other op : agg_ok op <> Err POther.
Proof.
  unfold agg_ok. destruct (_ || _); [discriminate|].
  destruct (mem_str op hash_aggs); discriminate.
Qed.

Lemma binop_ok_no_other op l r : binop_ok op l r <> Err POther.
Proof.
  unfold binop_ok.
  destruct (etype l), (etype r);
    repeat match goal with |- context [if ?c then _ else _] => destruct c end; discriminate.
Qed.

Lemma Forall_map_plan (P : res unit -> Prop) args :
  Forall (fun a => P (plan a)) args -> Forall P (map plan args).
Proof. induction 1; simpl; constructor; auto. Qed.

Theorem plan_total : forall e, plan e <> Err POther.
Proof.
  induction e using expr_ind'; simpl; try discriminate; auto.
  - (* call *)
    destruct (String.eqb f "histogram_quantile").
    + apply first_err_no_other, Forall_map_plan; assumption.
    + apply bind_no_other; [apply function_call_no_other|].
      destruct (negb _); [discriminate|].
      destruct (existsb is_mat args); [discriminate|].
      apply bind_no_other; [|apply function_operator_ok_no_other].
      apply first_err_no_other, Forall_map_plan; assumption.
  - (* agg *)
    apply bind_no_other; [assumption|].
    apply bind_no_other; [|apply agg_ok_no_other].
    destruct p as [pe|]; [apply H; reflexivity|discriminate].
  - (* bin *)
    apply bind_no_other; [assumption|].
    apply bind_no_other; [assumption|apply binop_ok_no_other].
  - (* step invariant *)
    destruct e; auto; discriminate.
  - (* coalesce *)
    apply first_err_no_other, Forall_map_plan; assumption.
Qed.

(* ---- plan = Ok  <->  every node the planner descends into is native ---- *)

Lemma first_err_ok rs : first_err rs = Ok tt <-> Forall (fun r => r = Ok tt) rs.
Proof.
  induction rs as [|r rs IH]; simpl.
  - split; auto.
  - destruct r as [[]|e].
    + rewrite IH. split; intros H; [constructor; auto|inversion H; auto].
    + split; intros H; [discriminate|inversion H; discriminate].
Qed.

Lemma bind_ok r k : bind r k = Ok tt <-> r = Ok tt /\ k = Ok tt.
Proof.
  destruct r as [[]|e]; simpl.
  - split; [intros H; split; [reflexivity|assumption]|intros [_ H]; assumption].
  - split; [intros H; discriminate|intros [H _]; discriminate].
Qed.

Lemma function_call_ok f : function_call f = Ok tt <-> In f engine_funcs.
Proof.
  unfold function_call. rewrite <- mem_str_In.
  destruct (mem_str f engine_funcs); [tauto|].
  destruct (fn_info f); split; intros H; discriminate.
Qed.

Lemma Forall_map_iff {A B} (P : B -> Prop) (g : A -> B) l :
  Forall P (map g l) <-> Forall (fun a => P (g a)) l.
Proof.
  induction l as [|a l IH]; simpl.
  - split; intros _; constructor.
  - split; intros H; inversion H; subst; constructor; auto; apply IH; assumption.
Qed.

Lemma Forall_iff_pointwise {A} (P Q : A -> Prop) l :
  Forall (fun a => P a <-> Q a) l -> (Forall P l <-> Forall Q l).
Proof.
  induction 1 as [|a l Ha _ IH].
  - split; intros _; constructor.
  - split; intros H; inversion H; subst; constructor;
      try (apply Ha; assumption); apply IH; assumption.
Qed.

Theorem plan_ok_iff_native : forall e, plan e = Ok tt <-> native e.
Proof.
  induction e using expr_ind'; simpl.
  - split; [constructor|reflexivity].
  - split; [discriminate|inversion 1].
  - split; [constructor|reflexivity].
  - split; [discriminate|inversion 1].
  - split; [discriminate|inversion 1].
  - (* call *)
    assert (HA : Forall (fun r => r = Ok tt) (map plan args) <-> Forall native args).
    { rewrite Forall_map_iff. apply Forall_iff_pointwise. assumption. }
    destruct (String.eqb f "histogram_quantile") eqn:Ehq.
    + apply String.eqb_eq in Ehq; subst f. rewrite first_err_ok, HA.
      split; [apply NHist|].
      inversion 1; subst; auto;
        exfalso; match goal with Hn : _ <> hq |- _ => apply Hn; reflexivity end.
    + apply String.eqb_neq in Ehq.
      rewrite bind_ok, function_call_ok.
      split.
      * intros [Hin Hrest].
        destruct (Z.eqb (fn_variadic f) 0) eqn:Ev; simpl in Hrest; [|discriminate].
        apply Z.eqb_eq in Ev.
        destruct (existsb is_mat args) eqn:Em.
        -- apply NCallMat; auto.
        -- apply bind_ok in Hrest. destruct Hrest as [Hargs Hop].
           apply NCall; auto. apply HA, first_err_ok; assumption.
      * inversion 1; subst.
        -- exfalso; apply Ehq; reflexivity.
        -- split; [assumption|].
           match goal with Hv : fn_variadic f = 0%Z |- _ => rewrite Hv end; simpl.
           match goal with Hm : existsb is_mat args = true |- _ => rewrite Hm end; reflexivity.
        -- split; [assumption|].
           match goal with Hv : fn_variadic f = 0%Z |- _ => rewrite Hv end; simpl.
           match goal with Hm : existsb is_mat args = false |- _ => rewrite Hm end.
           apply bind_ok; split; [|assumption].
           apply first_err_ok, HA; assumption.
  - (* agg *)
    rewrite !bind_ok, IHe. split.
    + intros [He [Hp Ha]]. constructor; auto.
      intros pe Hpe; subst p. apply (H pe eq_refl). assumption.
    + inversion 1; subst. repeat split; auto.
      destruct p as [pe|]; [|reflexivity]. apply (H pe eq_refl). auto.
  - (* bin *)
    rewrite !bind_ok, IHe1, IHe2. split.
    + intros [Hl [Hr Ho]]; constructor; auto.
    + inversion 1; subst; auto.
  - rewrite IHe. split; [constructor; auto|inversion 1; auto].
  - rewrite IHe. split; [constructor; auto|inversion 1; auto].
  - (* step invariant *)
    split.
    + intros Hp. constructor. apply IHe. destruct e; auto.
    + inversion 1; subst. destruct e; try reflexivity; apply IHe; assumption.
  - (* coalesce *)
    rewrite first_err_ok, Forall_map_iff.
    rewrite (Forall_iff_pointwise _ _ es H).
    split; [constructor; auto|inversion 1; auto].
  - split; [constructor|reflexivity].
Qed.

(* The decision takes the expression only: no data, window or option enters
   [plan]; this is its type. The next lemma records the only place where the
   planner does not descend into a call's arguments, and shows (from the
   generated tables) that nothing is skipped there. *)

Definition is_TMatrix (t : vtype) : bool := vtype_eqb t TMatrix.

Definition range_funcs_unary : bool :=
  forallb (fun f =>
    match fn_info f with
    | Some (ats, v, _) => if existsb is_TMatrix ats then (Nat.eqb (List.length ats) 1) && Z.eqb v 0 else true
    | None => false
    end) engine_funcs.

Lemma range_funcs_unary_ok : range_funcs_unary = true.
Proof. vm_compute. reflexivity. Qed.

Theorem native_range_call_has_one_parameter f :
  In f engine_funcs ->
  exists ats v r, fn_info f = Some (ats, v, r) /\
                  (existsb is_TMatrix ats = true -> List.length ats = 1%nat /\ v = 0%Z).
Proof.
  intros Hin. pose proof range_funcs_unary_ok as H. unfold range_funcs_unary in H.
  rewrite forallb_forall in H. specialize (H f Hin).
  destruct (fn_info f) as [[[ats v] r]|]; [|discriminate].
  exists ats, v, r. split; [reflexivity|]. intros Hm. rewrite Hm in H.
  apply andb_true_iff in H. destruct H as [H1 H2].
  apply Nat.eqb_eq in H1. apply Z.eqb_eq in H2. auto.
Qed.

(* ---- query creation ---- *)

Definition rejected_by_type (is_range : bool) (ty : vtype) : bool :=
  is_range && negb (vtype_eqb ty TVector || vtype_eqb ty TScalar).

Theorem new_query_fallback_on is_range ty e :
  rejected_by_type is_range ty = false ->
  (new_query true is_range ty e = O_Native /\ native e) \/
  (new_query true is_range ty e = O_Fallback /\ ~ native e).
Proof.
  intros Hr. unfold new_query. unfold rejected_by_type in Hr. rewrite Hr.
  destruct (plan e) as [[]|err] eqn:Hp.
  - left. split; auto. apply plan_ok_iff_native; assumption.
  - right. split.
    + destruct err; auto. exfalso. exact (plan_total e Hp).
    + intros Hn. apply plan_ok_iff_native in Hn. congruence.
Qed.

Theorem new_query_fallback_off is_range ty e :
  rejected_by_type is_range ty = false ->
  (new_query false is_range ty e = O_Native /\ native e) \/
  (new_query false is_range ty e = O_ErrUnsupported /\ ~ native e).
Proof.
  intros Hr. unfold new_query. unfold rejected_by_type in Hr. rewrite Hr.
  destruct (plan e) as [[]|err] eqn:Hp.
  - left. split; auto. apply plan_ok_iff_native; assumption.
  - right. split.
    + destruct err; auto. exfalso. exact (plan_total e Hp).
    + intros Hn. apply plan_ok_iff_native in Hn. congruence.
Qed.

(* Native iff native, independent of the fallback switch: "all other queries
   behave as with fallback enabled". *)
Theorem native_path_independent_of_fallback is_range ty e :
  new_query true is_range ty e = O_Native <-> new_query false is_range ty e = O_Native.
Proof.
  unfold new_query. destruct (_ && _); [tauto|].
  destruct (plan e) as [[]|[]]; split; intros H; try discriminate; auto.
Qed.

(* ---- the per-path counter, over every history of creations ---- *)

Lemma counter_delta_spec fb is_range ty e :
  counter_delta fb is_range ty e =
  match new_query fb is_range ty e with
  | O_Native => (1, 0)%nat
  | O_Fallback => (0, 1)%nat
  | O_ErrUnsupported => (1, 0)%nat
  | O_ErrOther => (0, 0)%nat
  end.
Proof.
  unfold counter_delta, new_query. destruct (_ && _); [reflexivity|].
  destruct (plan e) as [[]|err] eqn:Hp; [reflexivity|].
  destruct err; try (destruct fb; reflexivity).
  exfalso. exact (plan_total e Hp).
Qed.

Theorem counters_exact fb : forall cs s s' os,
  run_creations fb s cs = (s', os) ->
  es_true s' = (es_true s + count_outcome O_Fallback os)%nat /\
  es_false s' = (es_false s + count_outcome O_Native os + count_outcome O_ErrUnsupported os)%nat /\
  List.length os = List.length cs.
Proof.
  induction cs as [|c cs IH]; intros s s' os H; simpl in H.
  - inversion H; subst; simpl. unfold count_outcome; simpl. lia.
  - unfold create in H.
    destruct (run_creations fb _ cs) as [s2 os2] eqn:Hr.
    inversion H; subst; clear H.
    apply IH in Hr. destruct Hr as [Ht [Hf Hl]].
    rewrite counter_delta_spec in Ht, Hf.
    unfold count_outcome in *; simpl in *.
    destruct (new_query fb (cr_range c) (cr_ty c) (cr_expr c)); simpl in *; lia.
Qed.

Lemma no_unsupported_error_with_fallback cs : forall s s' os,
  run_creations true s cs = (s', os) -> count_outcome O_ErrUnsupported os = 0%nat.
Proof.
  induction cs as [|c cs IH]; intros s s' os H; simpl in H.
  - inversion H; reflexivity.
  - unfold create in H.
    destruct (run_creations true _ cs) as [s2 os2] eqn:Hr.
    inversion H; subst; clear H. apply IH in Hr.
    unfold count_outcome in *; simpl.
    assert (Hne : new_query true (cr_range c) (cr_ty c) (cr_expr c) <> O_ErrUnsupported).
    { unfold new_query. destruct (_ && _); [discriminate|].
      destruct (plan _) as [[]|[]]; discriminate. }
    destruct (new_query true _ _ _); simpl; auto. exfalso; apply Hne; reflexivity.
Qed.

Corollary counters_exact_fallback_on cs s s' os :
  run_creations true s cs = (s', os) ->
  es_true s' = (es_true s + count_outcome O_Fallback os)%nat /\
  es_false s' = (es_false s + count_outcome O_Native os)%nat.
Proof.
  intros H. pose proof (counters_exact true cs s s' os H) as [Ht [Hf _]].
  rewrite (no_unsupported_error_with_fallback cs s s' os H) in Hf. split; [assumption|lia].
Qed.

(* ---- non-vacuity ---- *)

Example native_example :
  native (EAgg "sum" false [] None
            (ECall "rate" [EMat (mkVS [mkM 0 MEq 1] 0 0 None None 1) 300000])).
Proof. apply plan_ok_iff_native. vm_compute. reflexivity. Qed.

Example fallback_example :
  new_query true true TVector (ECall "sort" [EVec (mkVS [] 0 0 None None 0)]) = O_Fallback /\
  new_query false true TVector (ECall "sort" [EVec (mkVS [] 0 0 None None 0)]) = O_ErrUnsupported.
Proof. split; vm_compute; reflexivity. Qed.

Example nested_unsupported_never_native :
  ~ native (EAgg "sum" false [] None (EBin "+" false OneToOne false [] []
              (EVec (mkVS [] 0 0 None None 0)) (ECall "sort" [EVec (mkVS [] 0 0 None None 0)]))).
Proof. intros H. apply plan_ok_iff_native in H. vm_compute in H. discriminate. Qed.
