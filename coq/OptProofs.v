(* Proofs about Opt.v (property C09). *)
From Coq Require Import List String ZArith NArith Bool Lia Permutation.
From Verif Require Import Ast Base Opt.
Import ListNotations.

Section Proofs.
  Variable re : N -> N -> bool.

  (* ---- order and repetition of matchers do not matter ------------------ *)

  Lemma sel_matches_perm ms ms' l : Permutation ms ms' -> sel_matches re ms' l = sel_matches re ms l.
  Proof.
    unfold sel_matches. induction 1; simpl; auto.
    - rewrite IHPermutation. reflexivity.
    - destruct (matches re x l), (matches re y l); reflexivity.
    - congruence.
  Qed.

  Lemma sel_matches_incl ms ms' l : incl ms' ms -> sel_matches re ms l = true -> sel_matches re ms' l = true.
  Proof.
    unfold sel_matches. intros Hi H. rewrite forallb_forall in *. intros m Hm. apply H, Hi, Hm.
  Qed.

  Lemma sel_matches_same_set ms ms' l : incl ms ms' -> incl ms' ms -> sel_matches re ms l = sel_matches re ms' l.
  Proof.
    intros H1 H2. destruct (sel_matches re ms l) eqn:E1, (sel_matches re ms' l) eqn:E2; auto.
    - rewrite (sel_matches_incl ms ms' l H2 E1) in E2. discriminate.
    - rewrite (sel_matches_incl ms' ms l H1 E2) in E1. discriminate.
  Qed.

  Lemma insert_perm m l : Permutation (m :: l) (insert_by_name m l).
  Proof.
    induction l as [|x l IH]; simpl; [apply Permutation_refl|].
    destruct (N.leb (mname m) (mname x)); [apply Permutation_refl|].
    eapply Permutation_trans; [apply perm_swap|]. apply perm_skip. exact IH.
  Qed.

  Lemma sort_matchers_perm l : Permutation l (sort_matchers l).
  Proof.
    induction l as [|m l IH]; simpl; [constructor|].
    eapply Permutation_trans; [apply perm_skip; exact IH|]. apply insert_perm.
  Qed.

  (* ---- selectors equivalent in what they select and when ---------------- *)

  Definition vequiv (v v' : vsel) : Prop :=
    (forall l, vsel_matches re v' l = vsel_matches re v l) /\
    vorig v' = vorig v /\ voff v' = voff v /\ vat v' = vat v.

  Lemma vequiv_refl v : vequiv v v.
  Proof. repeat split. Qed.

  Lemma vequiv_denote v v' D : vequiv v v' -> denote_sel re v' D = denote_sel re v D.
  Proof.
    intros [H _]. unfold denote_sel. apply filter_ext. intros s. apply H.
  Qed.

  (* SortMatchers on a selector *)
  Lemma sort_vequiv v : vequiv v (mkVS (sort_matchers (vms v)) (vorig v) (voff v) (vat v) (vflt v) (vsyn v)).
  Proof.
    repeat split; simpl. intros l. unfold vsel_matches. simpl.
    rewrite (sel_matches_perm (vms v) (sort_matchers (vms v)) l (sort_matchers_perm _)). reflexivity.
  Qed.

  (* ---- MergeSelects: for ANY heap content the rewritten selector (broader
          select + filter) denotes the same series ------------------------- *)

  Lemma contains_matcher_In ms m : contains_matcher ms m = true <-> In m ms.
  Proof.
    unfold contains_matcher. rewrite existsb_exists. split.
    - intros [x [Hx He]]. apply matcher_eqb_eq in He. subst. assumption.
    - intros H. exists m. split; [assumption|]. apply matcher_eqb_eq. reflexivity.
  Qed.

  Lemma first_replacement_usable h names ms top :
    first_replacement h names ms = Some top -> usable_replacement top ms = true.
  Proof.
    induction names as [|m names IH]; simpl; [discriminate|].
    destruct (heap_get h (mval m)) as [t|]; [|exact IH].
    destruct (usable_replacement t ms) eqn:E; [|exact IH].
    intros H; inversion H; subst. assumption.
  Qed.

  Theorem merge_sel_vequiv h v : vequiv v (merge_sel h v).
  Proof.
    unfold merge_sel. destruct (vflt v) eqn:Ef; [apply vequiv_refl|].
    destruct (first_replacement h (name_matchers (vms v)) (vms v)) as [top|] eqn:Er; [|apply vequiv_refl].
    apply first_replacement_usable in Er. unfold usable_replacement in Er.
    apply andb_true_iff in Er. destruct Er as [Hsub _].
    rewrite forallb_forall in Hsub.
    repeat split; simpl. intros l. unfold vsel_matches. simpl. rewrite Ef, andb_true_r.
    set (flt := filter (fun m => negb (contains_matcher top m)) (vms v)).
    change (sel_matches re top l && sel_matches re flt l) with
      (forallb (fun m => matches re m l) top && forallb (fun m => matches re m l) flt).
    rewrite <- forallb_app.
    apply (sel_matches_same_set (top ++ flt) (vms v) l).
    - intros m Hm. apply in_app_or in Hm. destruct Hm as [Hm|Hm].
      + apply contains_matcher_In. apply Hsub. assumption.
      + unfold flt in Hm. apply filter_In in Hm. tauto.
    - intros m Hm. apply in_or_app.
      destruct (contains_matcher top m) eqn:Ec.
      + left. apply contains_matcher_In. assumption.
      + right. unfold flt. apply filter_In. split; [assumption|]. rewrite Ec. reflexivity.
  Qed.

  (* ---- expressions equal up to equivalent selectors --------------------- *)

  Inductive eequiv : expr -> expr -> Prop :=
  | QNum b : eequiv (ENum b) (ENum b)
  | QStr : eequiv EStr EStr
  | QVec v v' : vequiv v v' -> eequiv (EVec v) (EVec v')
  | QMat v v' r : vequiv v v' -> eequiv (EMat v r) (EMat v' r)
  | QSubq e e' : eequiv e e' -> eequiv (ESubq e) (ESubq e')
  | QCall f args args' : Forall2 eequiv args args' -> eequiv (ECall f args) (ECall f args')
  | QAgg op w g p e e' : eequiv e e' -> eequiv (EAgg op w g p e) (EAgg op w g p e')
  | QBin op b c on ml incl l l' r r' : eequiv l l' -> eequiv r r' ->
      eequiv (EBin op b c on ml incl l r) (EBin op b c on ml incl l' r')
  | QUn n e e' : eequiv e e' -> eequiv (EUn n e) (EUn n e')
  | QParen e e' : eequiv e e' -> eequiv (EParen e) (EParen e')
  | QStepInv e e' : eequiv e e' -> eequiv (EStepInv e) (EStepInv e')
  | QCoalesce es : eequiv (ECoalesce es) (ECoalesce es)
  | QRemote n q : eequiv (ERemote n q) (ERemote n q).

  Lemma eequiv_refl : forall e, eequiv e e.
  Proof.
    induction e using expr_ind'; try (constructor; auto using vequiv_refl; fail).
    constructor. induction H; constructor; auto.
  Qed.

  (* every transform that maps selectors to equivalent selectors leaves the
     expression equivalent, wherever traverse applies it *)
  Theorem traverse_sel_eequiv f : (forall v, vequiv v (f v)) -> forall e, eequiv e (traverse_sel f e).
  Proof.
    intros Hf. induction e using expr_ind'; simpl; try (constructor; auto using eequiv_refl; fail).
    - constructor. induction H; simpl; constructor; auto.
    - constructor. destruct e; try apply eequiv_refl. constructor. apply Hf.
  Qed.

  Corollary opt_sort_eequiv e : eequiv e (opt_sort e).
  Proof. apply traverse_sel_eequiv. intros v. apply sort_vequiv. Qed.

  Corollary opt_merge_eequiv e : eequiv e (opt_merge e).
  Proof. apply traverse_sel_eequiv. intros v. apply merge_sel_vequiv. Qed.

  (* ---- matcher propagation: the matched pairs of a one-to-one join on all
          labels are unchanged -------------------------------------------- *)

  (* two label sets that agree on every label but the metric name *)
  Definition same_signature (a b : labels) : Prop := forall n, n <> 0%N -> lget a n = lget b n.

  Lemma matches_same_signature m a b : mname m <> 0%N -> same_signature a b -> matches re m a = matches re m b.
  Proof. intros Hn Hs. unfold matches. rewrite (Hs (mname m) Hn). reflexivity. Qed.

  Lemma fold_propagated_spec other : forall own m,
    In m (fold_left (fun acc m => if N.eqb (mname m) 0 || contains_matcher acc m then acc else acc ++ [m]) other own) <->
    In m own \/ (In m other /\ mname m <> 0%N).
  Proof.
    induction other as [|x other IH]; intros own m; simpl; [tauto|].
    rewrite IH. destruct (N.eqb_spec (mname x) 0) as [Hx|Hx]; simpl.
    - split; [tauto|]. intros [H|[[->|H] Hn]]; auto; congruence.
    - destruct (contains_matcher own x) eqn:Ec.
      + apply contains_matcher_In in Ec. split; [tauto|].
        intros [H|[[->|H] Hn]]; auto.
      + rewrite in_app_iff. simpl. split.
        * intros [[H|[->|[]]]|H]; auto. tauto.
        * intros [H|[[->|H] Hn]]; auto.
  Qed.

  Lemma with_propagated_matches own other l :
    sel_matches re (with_propagated own other) l =
    sel_matches re own l && sel_matches re (filter (fun m => negb (N.eqb (mname m) 0)) other) l.
  Proof.
    unfold with_propagated.
    rewrite (sel_matches_perm _ _ l (sort_matchers_perm _)).
    change (sel_matches re own l && sel_matches re (filter (fun m => negb (N.eqb (mname m) 0)) other) l) with
      (forallb (fun m => matches re m l) own && forallb (fun m => matches re m l) (filter (fun m => negb (N.eqb (mname m) 0)) other)).
    rewrite <- forallb_app. apply sel_matches_same_set.
    - intros m Hm. apply fold_propagated_spec in Hm. apply in_or_app.
      destruct Hm as [H|[H Hn]]; [left; assumption|right]. apply filter_In. split; [assumption|].
      destruct (N.eqb_spec (mname m) 0); [contradiction|reflexivity].
    - intros m Hm. apply fold_propagated_spec. apply in_app_or in Hm.
      destruct Hm as [H|H]; [left; assumption|right]. apply filter_In in H. destruct H as [H Hn].
      split; [assumption|]. destruct (N.eqb_spec (mname m) 0); [discriminate|assumption].
  Qed.

  Lemma non_name_matchers_same_signature ms a b : same_signature a b ->
    sel_matches re (filter (fun m => negb (N.eqb (mname m) 0)) ms) a =
    sel_matches re (filter (fun m => negb (N.eqb (mname m) 0)) ms) b.
  Proof.
    intros Hs. unfold sel_matches. induction ms as [|m ms IH]; simpl; [reflexivity|].
    destruct (N.eqb_spec (mname m) 0); simpl; [exact IH|].
    rewrite (matches_same_signature m a b n Hs), IH. reflexivity.
  Qed.

  (* a pair of series with equal signatures is matched before propagation iff it
     is matched after: propagation removes only series that have no partner *)
  Theorem propagate_preserves_pairs lms rms a b : same_signature a b ->
    (sel_matches re (with_propagated lms rms) a && sel_matches re (with_propagated rms lms) b) =
    (sel_matches re lms a && sel_matches re rms b).
  Proof.
    intros Hs. rewrite !with_propagated_matches.
    rewrite (non_name_matchers_same_signature rms a b Hs).
    rewrite <- (non_name_matchers_same_signature lms a b Hs).
    assert (Hl : sel_matches re lms a = true -> sel_matches re (filter (fun m => negb (N.eqb (mname m) 0)) lms) a = true).
    { apply sel_matches_incl. intros m Hm. apply filter_In in Hm. tauto. }
    assert (Hr : sel_matches re rms b = true -> sel_matches re (filter (fun m => negb (N.eqb (mname m) 0)) rms) b = true).
    { apply sel_matches_incl. intros m Hm. apply filter_In in Hm. tauto. }
    destruct (sel_matches re lms a) eqn:El, (sel_matches re rms b) eqn:Er; simpl;
      rewrite ?andb_false_r; auto.
    rewrite (Hl eq_refl), (Hr eq_refl). reflexivity.
  Qed.
End Proofs.
