(* Evaluation of Topk.v on operand streams recorded from the real engine
   (correspondence check of C04 for topk/bottomk). Values are primitive floats. *)
From Coq Require Import List ZArith NArith Bool Floats.
From Verif Require Import Base Agg Bin BinCases Topk.
Import ListNotations.
Close Scope Z_scope.

Record topk_case := mkTC {
  tc_id : N; tc_bottom : bool; tc_k : nat; tc_without : bool; tc_grouping : list N;
  tc_series : list labels;                                   (* Series() of the operand *)
  tc_steps : list (Z * list (nat * float));                  (* its step vectors *)
  tc_expected : list (Z * list (labels * float)) }.

Definition topk_model (c : topk_case) : list (Z * list (labels * float)) :=
  let keys := map (group_labels (tc_without c) (tc_grouping c)) (tc_series c) in
  let '(inputs, groups) := assign_groups keys [] in
  let lt := if tc_bottom c then (fun a b : float => PrimFloat.ltb b a) else PrimFloat.ltb in
  map (fun s => (fst s,
                 map (fun e : nat * float => (nth (fst e) (tc_series c) [], snd e))
                     (topk_step float lt PrimFloat.is_nan (tc_k c) inputs (List.length groups) (snd s))))
      (tc_steps c).

Definition topk_case_ok (c : topk_case) : bool := steps_eqb (topk_model c) (tc_expected c).

Definition topk_mismatches (cs : list topk_case) : list N :=
  map tc_id (filter (fun c => negb (topk_case_ok c)) cs).
