(* Trace conformance cases of the real concurrency operator (C14). *)
From Coq Require Import List ZArith NArith Bool.
From Verif Require Import Conc ConcTrace.
Import ListNotations.

Record conc_case := mkCT { ct_id : N; ct_total : nat; ct_goroutines_left : nat; ct_trace : list label }.

(* the log is a trace of the system, and no goroutine outlived the run *)
Definition conc_case_ok (c : conc_case) : bool :=
  accepts true (ct_total c) (ct_trace c) && Nat.eqb (ct_goroutines_left c) 0.

Definition conc_mismatches (cs : list conc_case) : list N :=
  map ct_id (filter (fun c => negb (conc_case_ok c)) cs).
