(* The kernels of the range functions (execution/function/functions.go:
   sumOverTime, avgOverTime, minOverTime, maxOverTime, stddev/stdvarOverTime,
   changes, resets, deriv / linearRegression, instantValue, extrapolatedRate,
   KahanSumInc), transcribed operation by operation. Two instances: generic in
   the value type for the order-based ones (theorems in RangeFnsProofs.v), and
   on Coq's primitive floats for all of them (used only by the correspondence
   check, which calls the real kernels on the same points). *)
From Coq Require Import List ZArith NArith Bool Floats Uint63.
From Verif Require Export RangeOrd RangeArith.
Import ListNotations.

(* ---- the float instance ----------------------------------------------------------- *)

Local Open Scope float_scope.

Definition z2f (z : Z) : float :=
  match z with
  | Z0 => 0
  | Zpos _ => PrimFloat.of_uint63 (Uint63.of_Z z)
  | Zneg p => - PrimFloat.of_uint63 (Uint63.of_Z (Zpos p))
  end.

Definition fisinf (x : float) : bool := PrimFloat.eqb x infinity || PrimFloat.eqb x neg_infinity.

Definition point := (Z * float)%type.     (* timestamp (ms), value *)

Definition fops : ops float :=
  mkOps float 0 1 PrimFloat.add PrimFloat.sub PrimFloat.mul PrimFloat.div PrimFloat.abs
        PrimFloat.leb PrimFloat.ltb PrimFloat.eqb fisinf PrimFloat.is_nan z2f 1000 nan.

(* the arithmetic kernels are the generic ones of RangeArith.v on floats *)
Definition kahan (inc sum c : float) : float * float := gkahan float fops inc sum c.

Definition sum_over_time (ps : list point) : float := gsum_over float fops (map snd ps).

Definition avg_over_time (ps : list point) : float := gavg_over float fops (map snd ps).

Definition fmax_over (ps : list point) : float :=
  match ps with
  | [] => nan
  | p :: _ => max_over float PrimFloat.ltb PrimFloat.is_nan (snd p) (map snd ps)
  end.
Definition fmin_over (ps : list point) : float :=
  match ps with
  | [] => nan
  | p :: _ => min_over float PrimFloat.ltb PrimFloat.is_nan (snd p) (map snd ps)
  end.

Definition variance_over_time (ps : list point) : float := gvariance_over float fops (map snd ps).

Definition stdvar_over_time := variance_over_time.
Definition stddev_over_time (ps : list point) : float := PrimFloat.sqrt (variance_over_time ps).

Definition fchanges (ps : list point) : float :=
  match ps with
  | [] => 0
  | p :: r => z2f (Z.of_nat (changes_from float PrimFloat.is_nan PrimFloat.eqb (snd p) (map snd r)))
  end.
Definition fresets (ps : list point) : float :=
  match ps with
  | [] => 0
  | p :: r => z2f (Z.of_nat (resets_from float PrimFloat.ltb (snd p) (map snd r)))
  end.

Definition last_point (ps : list point) (d : point) : point := last ps d.

(* linearRegression(points, interceptTime = points[0].T), the slope *)
Definition deriv (ps : list point) : float := gderiv float fops ps.

(* instantValue: irate (is_rate) / idelta; None = no sample *)
Definition instant_value (ps : list point) (is_rate : bool) : option float :=
  match rev ps with
  | lastp :: prevp :: _ =>
      let v := if is_rate && PrimFloat.ltb (snd lastp) (snd prevp) then snd lastp else snd lastp - snd prevp in
      let dt := (fst lastp - fst prevp)%Z in
      if Z.eqb dt 0 then None
      else Some (if is_rate then v / (z2f dt / 1000) else v)
  | _ => None
  end.

(* extrapolatedRate *)
Definition extrapolated_rate (ps : list point) (is_counter is_rate : bool) (step_time select_range offset : Z) : float :=
  match ps with
  | [] => nan
  | first :: _ =>
      let lastp := last ps first in
      let range_start := (step_time - (select_range + offset))%Z in
      let range_end := (step_time - offset)%Z in
      let result0 := snd lastp - snd first in
      let result1 :=
        if is_counter
        then fst (fold_left (fun st p => let '(res, lastv) := st in
                                         ((if PrimFloat.ltb (snd p) lastv then res + lastv else res), snd p))
                            ps (result0, 0))
        else result0 in
      let dur_start := z2f (fst first - range_start) / 1000 in
      let dur_end := z2f (range_end - fst lastp) / 1000 in
      let sampled := z2f (fst lastp - fst first) / 1000 in
      let avg_between := sampled / z2f (Z.of_nat (length ps) - 1) in
      let dur_start :=
        if is_counter && PrimFloat.ltb 0 result1 && PrimFloat.leb 0 (snd first)
        then let dz := sampled * (snd first / result1) in if PrimFloat.ltb dz dur_start then dz else dur_start
        else dur_start in
      let threshold := avg_between * 1.1 in
      let interval := sampled in
      let interval := if PrimFloat.ltb dur_start threshold then interval + dur_start else interval + avg_between / 2 in
      let interval := if PrimFloat.ltb dur_end threshold then interval + dur_end else interval + avg_between / 2 in
      let factor := interval / sampled in
      let factor := if is_rate then factor / (z2f select_range / 1000) else factor in
      result1 * factor
  end.

(* the function table: Some v = the sample's value, None = InvalidSample *)
Definition range_fn (code : N) (ps : list point) (step_time select_range offset : Z) : option float :=
  let some_if (b : bool) (v : float) := if b then Some v else None in
  let n := length ps in
  match code with
  | 0%N => some_if (Nat.ltb 0 n) (sum_over_time ps)
  | 1%N => some_if (Nat.ltb 0 n) (fmax_over ps)
  | 2%N => some_if (Nat.ltb 0 n) (fmin_over ps)
  | 3%N => some_if (Nat.ltb 0 n) (avg_over_time ps)
  | 4%N => some_if (Nat.ltb 0 n) (stddev_over_time ps)
  | 5%N => some_if (Nat.ltb 0 n) (stdvar_over_time ps)
  | 6%N => some_if (Nat.ltb 0 n) (z2f (Z.of_nat n))
  | 7%N => some_if (Nat.ltb 0 n) (snd (last ps (0%Z, nan)))
  | 8%N => some_if (Nat.ltb 0 n) 1
  | 9%N => some_if (Nat.ltb 0 n) (fchanges ps)
  | 10%N => some_if (Nat.ltb 0 n) (fresets ps)
  | 11%N => some_if (Nat.ltb 1 n) (deriv ps)
  | 12%N => if Nat.ltb 1 n then instant_value ps true else None
  | 13%N => if Nat.ltb 1 n then instant_value ps false else None
  | 14%N => some_if (Nat.ltb 1 n) (extrapolated_rate ps true true step_time select_range offset)
  | 15%N => some_if (Nat.ltb 1 n) (extrapolated_rate ps false false step_time select_range offset)
  | _ => some_if (Nat.ltb 1 n) (extrapolated_rate ps true false step_time select_range offset)
  end.

(* ---- cases ---------------------------------------------------------------------------- *)

Record kernel_case := mkKC {
  kc_id : N; kc_fn : N; kc_points : list point; kc_step : Z; kc_range : Z; kc_offset : Z;
  kc_expected : option float }.

Definition feqb' (a b : float) : bool :=
  (PrimFloat.eqb a b && PrimFloat.eqb (1 / a) (1 / b)) || (PrimFloat.is_nan a && PrimFloat.is_nan b).

Definition kernel_case_ok (c : kernel_case) : bool :=
  match range_fn (kc_fn c) (kc_points c) (kc_step c) (kc_range c) (kc_offset c), kc_expected c with
  | Some a, Some b => feqb' a b
  | None, None => true
  | _, _ => false
  end.

Definition kernel_mismatches (cs : list kernel_case) : list N :=
  map kc_id (filter (fun c => negb (kernel_case_ok c)) cs).
