(* The quantile aggregation (RangeArith.gquantile) on the rationals: for 0 <= q <= 1 over a non-empty
   group the result lies between two consecutive order statistics of the group's samples - the
   sorted sample at the floor of the rank q * (n - 1) and its successor - and so between two of the
   samples. *)
From Coq Require Import List ZArith QArith Qabs Bool Arith Lia Lqa Sorted Permutation.
From Verif Require Import RangeArith RangeArithProofs.
Import ListNotations.
Open Scope Q_scope.

Notation qless := (gless Q qops).
Notation qinsert := (ginsert Q qops).
Notation qsort := (gsort Q qops).

Lemma qless_lt x y : qless x y = true <-> x < y.
Proof.
  unfold gless. simpl. rewrite orb_false_r. split.
  - intros H. apply negb_true_iff in H. apply Qnot_le_lt. intros Hle. apply Qle_bool_iff in Hle. congruence.
  - intros H. apply negb_true_iff. destruct (Qle_bool y x) eqn:E; [|reflexivity]. apply Qle_bool_iff in E. lra.
Qed.

Lemma qinsert_in x l y : In y (qinsert x l) <-> y = x \/ In y l.
Proof.
  induction l as [|z l IH]; simpl; [intuition|].
  destruct (qless z x); simpl; [rewrite IH|]; intuition.
Qed.

Lemma qsort_in l y : In y (qsort l) <-> In y l.
Proof.
  unfold gsort. induction l as [|x l IH]; simpl; [reflexivity|]. rewrite qinsert_in, IH. intuition.
Qed.

Lemma qinsert_length x l : length (qinsert x l) = S (length l).
Proof. induction l as [|z l IH]; simpl; [reflexivity|]. destruct (qless z x); simpl; [rewrite IH|]; reflexivity. Qed.

Lemma qsort_length l : length (qsort l) = length l.
Proof. unfold gsort. induction l as [|x l IH]; simpl; [reflexivity|]. rewrite qinsert_length, IH. reflexivity. Qed.

Lemma qinsert_sorted x l : StronglySorted Qle l -> StronglySorted Qle (qinsert x l).
Proof.
  induction 1 as [|z l Hs IH Hz]; simpl; [constructor; constructor|].
  destruct (qless z x) eqn:E.
  - constructor; [exact IH|]. apply Forall_forall. intros y Hy. apply qinsert_in in Hy.
    destruct Hy as [->|Hy]; [apply qless_lt in E; lra|]. rewrite Forall_forall in Hz. apply Hz. exact Hy.
  - assert (Hxz : x <= z).
    { destruct (Qlt_le_dec z x) as [H|H]; [apply qless_lt in H; congruence|exact H]. }
    constructor; [constructor; assumption|]. constructor; [exact Hxz|].
    rewrite Forall_forall in *. intros y Hy. specialize (Hz y Hy). lra.
Qed.

Lemma qsort_sorted l : StronglySorted Qle (qsort l).
Proof. unfold gsort. induction l as [|x l IH]; simpl; [constructor|apply qinsert_sorted; exact IH]. Qed.

Lemma sorted_nth (l : list Q) d i j : StronglySorted Qle l -> (i <= j < length l)%nat -> nth i l d <= nth j l d.
Proof.
  intros Hs. revert i j. induction Hs as [|x l Hs IH Hx]; intros i j Hij; [simpl in Hij; lia|].
  destruct i as [|i], j as [|j]; simpl in *; try lra; try lia.
  - rewrite Forall_forall in Hx. apply Hx. apply nth_In. lia.
  - apply IH. lia.
Qed.

(* the floor: the largest integer in [0, n] that is at most x *)
Lemma qfloor_spec n x : 0 <= x ->
  let lo := gfloor_upto Q qops n x in
  (lo <= n)%nat /\ inject_Z (Z.of_nat lo) <= x /\ ((lo < n)%nat -> x < inject_Z (Z.of_nat lo) + 1).
Proof.
  intros Hx. induction n as [|k IH]; cbn [gfloor_upto].
  - cbv zeta. split; [lia|]. split; [simpl; exact Hx|lia].
  - destruct (leb qops (ofZ qops (Z.of_nat (S k))) x) eqn:E; cbv zeta.
    + split; [lia|]. split; [simpl in E; apply Qle_bool_iff in E; exact E|lia].
    + cbv zeta in IH. destruct IH as (A & B & C). split; [lia|]. split; [exact B|]. intros Hlt.
      destruct (Nat.eq_dec (gfloor_upto Q qops k x) k) as [Ek|Nk].
      * rewrite Ek. change (leb qops (ofZ qops (Z.of_nat (S k))) x) with (Qle_bool (inject_Z (Z.of_nat (S k))) x) in E.
        assert (Hn : ~ inject_Z (Z.of_nat (S k)) <= x) by (intros H; apply Qle_bool_iff in H; congruence).
        apply Qnot_le_lt in Hn. rewrite Nat2Z.inj_succ in Hn. unfold Z.succ in Hn. rewrite inject_Z_plus in Hn. exact Hn.
      * apply C. lia.
Qed.

Theorem quantile_between_order_statistics (pinf ninf q : Q) (points : list Q) :
  points <> [] -> 0 <= q -> q <= 1 ->
  let n := length points in
  let rank := q * (inject_Z (Z.of_nat n) - 1) in
  let lo := gfloor_upto Q qops n rank in
  let hi := Nat.min (n - 1) (lo + 1) in
  let r := gquantile Q qops pinf ninf q points in
  (lo <= hi < n)%nat /\ nth lo (qsort points) 0 <= r /\ r <= nth hi (qsort points) 0.
Proof.
  intros Hne Hq0 Hq1. cbv zeta.
  assert (Er : gquantile Q qops pinf ninf q points =
               nth (gfloor_upto Q qops (length points) (q * (inject_Z (Z.of_nat (length points)) - 1))) (qsort points) 0 *
                 (1 - (q * (inject_Z (Z.of_nat (length points)) - 1) -
                       inject_Z (Z.of_nat (gfloor_upto Q qops (length points) (q * (inject_Z (Z.of_nat (length points)) - 1)))))) +
               nth (Nat.min (length points - 1) (gfloor_upto Q qops (length points) (q * (inject_Z (Z.of_nat (length points)) - 1)) + 1)) (qsort points) 0 *
                 (q * (inject_Z (Z.of_nat (length points)) - 1) -
                  inject_Z (Z.of_nat (gfloor_upto Q qops (length points) (q * (inject_Z (Z.of_nat (length points)) - 1)))))).
  { unfold gquantile. destruct points as [|p0 ps]; [congruence|].
    assert (E1 : isnan qops q = false) by reflexivity.
    assert (E2 : ltb qops q (zero qops) = false) by (simpl; apply negb_false_iff; apply Qle_bool_iff; exact Hq0).
    assert (E3 : ltb qops (one qops) q = false) by (simpl; apply negb_false_iff; apply Qle_bool_iff; exact Hq1).
    rewrite E1, E2, E3. reflexivity. }
  rewrite Er. clear Er.
  remember (length points) as n eqn:En.
  assert (Hn : (1 <= n)%nat) by (subst n; destruct points; [congruence|simpl; lia]).
  remember (q * (inject_Z (Z.of_nat n) - 1)) as rank eqn:Erank.
  assert (Hn1 : 0 <= inject_Z (Z.of_nat n) - 1).
  { assert (H1 : inject_Z 1 <= inject_Z (Z.of_nat n)) by (rewrite <- Zle_Qle; lia). change (inject_Z 1) with 1 in H1. lra. }
  assert (Hr0 : 0 <= rank) by (subst rank; nra).
  assert (Hr1 : rank <= inject_Z (Z.of_nat n) - 1) by (subst rank; nra).
  destruct (qfloor_spec n rank Hr0) as (A & B & C).
  remember (gfloor_upto Q qops n rank) as lo eqn:Elo.
  assert (Hlo : (lo <= n - 1)%nat).
  { assert (H : inject_Z (Z.of_nat lo) <= inject_Z (Z.of_nat n) - 1) by lra.
    assert (H' : inject_Z (Z.of_nat lo) <= inject_Z (Z.of_nat n - 1)).
    { unfold Zminus. rewrite inject_Z_plus. exact H. }
    rewrite <- Zle_Qle in H'. lia. }
  remember (Nat.min (n - 1) (lo + 1)) as hi eqn:Ehi.
  assert (Hhi : (lo <= hi < n)%nat) by (subst hi; lia).
  split; [exact Hhi|].
  remember (rank - inject_Z (Z.of_nat lo)) as w eqn:Ew.
  assert (Hw0 : 0 <= w) by (subst w; lra).
  assert (Hlen : length (qsort points) = n) by (rewrite qsort_length; symmetry; exact En).
  pose proof (sorted_nth (qsort points) 0 lo hi (qsort_sorted points) ltac:(rewrite Hlen; lia)) as Hs.
  remember (nth lo (qsort points) 0) as a eqn:Ea. remember (nth hi (qsort points) 0) as b eqn:Eb.
  destruct (Nat.eq_dec lo (n - 1)) as [El|Nl].
  - (* the last order statistic: the weight is 0 *)
    assert (Hw : w == 0).
    { subst w. assert (Hl : inject_Z (Z.of_nat lo) == inject_Z (Z.of_nat n) - 1).
      { rewrite El. replace (Z.of_nat (n - 1)) with (Z.of_nat n - 1)%Z by lia. unfold Zminus. rewrite inject_Z_plus. reflexivity. }
      lra. }
    assert (Eh : hi = lo) by (subst hi; lia).
    assert (Eab : b = a) by (subst a b; rewrite Eh; reflexivity).
    rewrite Eab. split; nra.
  - assert (Hw1 : w < 1) by (subst w; pose proof (C ltac:(lia)); lra).
    split; nra.
Qed.

(* ... and so between two of the samples *)
Corollary quantile_between_samples (pinf ninf q : Q) (points : list Q) :
  points <> [] -> 0 <= q -> q <= 1 ->
  exists a b, In a points /\ In b points /\ a <= gquantile Q qops pinf ninf q points /\ gquantile Q qops pinf ninf q points <= b.
Proof.
  intros Hne Hq0 Hq1. destruct (quantile_between_order_statistics pinf ninf q points Hne Hq0 Hq1) as (Hi & Ha & Hb).
  cbv zeta in *.
  eexists. eexists. split; [|split; [|split; [exact Ha|exact Hb]]].
  - apply qsort_in. apply nth_In. rewrite qsort_length. lia.
  - apply qsort_in. apply nth_In. rewrite qsort_length. lia.
Qed.

Example quantile_range_example :
  gquantile Q qops 0 0 (1 # 4) [4; 1; 3] == 2.
Proof. vm_compute. reflexivity. Qed.
