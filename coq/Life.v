(* Control skeleton of query execution with faults (C13, C15, C17): storage
   callbacks that may fail or panic, error propagation ("if err != nil return"),
   deferred querier Close, goroutines that are joined synchronously and either
   recover a panic or let it kill the process, recover() boundaries. *)
From Coq Require Import List ZArith NArith Bool Lia.
Import ListNotations.

Inductive fault := FNone | FError | FPanic.

Inductive status := SOk | SErr | SPanic | SCrash.

Inductive tev := TOpen (id : nat) | TClose (id : nat) | TCall (site : nat).

Inductive prog :=
| Skip
| Ev (site : nat)                       (* one storage callback *)
| Seq (p q : prog)                      (* p; if it did not fail, q *)
| WithQuerier (id : nat) (body : prog)  (* querier := open(); defer querier.Close(); body *)
| Go (recovers : bool) (p : prog)       (* run p on its own goroutine and wait for it *)
| Recover (p : prog).                   (* a recover() boundary on this goroutine *)

(* [faults k] is the fault injected at the k-th executed callback (0-based).
   Returns the next callback index, the trace and the status. *)
Fixpoint run (p : prog) (faults : nat -> fault) (k : nat) : nat * list tev * status :=
  match p with
  | Skip => (k, [], SOk)
  | Ev site =>
      (S k, [TCall site], match faults k with FNone => SOk | FError => SErr | FPanic => SPanic end)
  | Seq a b =>
      let '(k1, t1, s1) := run a faults k in
      match s1 with
      | SOk => let '(k2, t2, s2) := run b faults k1 in (k2, t1 ++ t2, s2)
      | _ => (k1, t1, s1)
      end
  | WithQuerier id body =>
      let '(k1, t1, s1) := run body faults k in
      match s1 with
      | SCrash => (k1, TOpen id :: t1, SCrash)            (* the process is gone *)
      | _ => (k1, TOpen id :: t1 ++ [TClose id], s1)      (* the deferred Close runs on return and on panic *)
      end
  | Go recovers a =>
      let '(k1, t1, s1) := run a faults k in
      (k1, t1, match s1 with
               | SPanic => if recovers then SErr else SCrash
               | s => s
               end)
  | Recover a =>
      let '(k1, t1, s1) := run a faults k in
      (k1, t1, match s1 with SPanic => SErr | s => s end)
  end.

Definition status_of (p : prog) (faults : nat -> fault) : status := snd (run p faults 0).
Definition trace_of (p : prog) (faults : nat -> fault) : list tev := snd (fst (run p faults 0)).

(* every goroutine recovers *)
Fixpoint all_go_recover (p : prog) : bool :=
  match p with
  | Seq a b => all_go_recover a && all_go_recover b
  | WithQuerier _ a | Recover a => all_go_recover a
  | Go r a => r && all_go_recover a
  | _ => true
  end.

Fixpoint count_open (id : nat) (t : list tev) : nat :=
  match t with
  | [] => 0
  | TOpen i :: r => (if Nat.eqb i id then 1 else 0) + count_open id r
  | _ :: r => count_open id r
  end.

Fixpoint count_close (id : nat) (t : list tev) : nat :=
  match t with
  | [] => 0
  | TClose i :: r => (if Nat.eqb i id then 1 else 0) + count_close id r
  | _ :: r => count_close id r
  end.

(* ---- the engine's execution skeleton ----------------------------------- *)

(* seriesSelector.loadSeries: open a querier, defer its Close, Select and iterate *)
Definition load_select (id nseries : nat) : prog :=
  Seq (Ev 0)                                         (* Queryable.Querier(): may fail before anything is open *)
      (WithQuerier id (Seq (Ev 1) (fold_right (fun _ acc => Seq (Ev 2) acc) (Ev 3) (seq 0 nseries)))).

(* a sharded selector below Exec: series are loaded by coalesce.loadSeries on
   goroutines that recover; scanning happens on the pull goroutines *)
Definition selector_prog (id nseries nsteps : nat) (recovering : bool) : prog :=
  Seq (Go recovering (load_select id nseries))
      (Go recovering (fold_right (fun _ acc => Seq (Ev 4) acc) Skip (seq 0 (nseries * nsteps)))).

(* Exec: recoverEngine around everything *)
Definition exec_prog (recovering : bool) (sels : list (nat * nat)) (nsteps : nat) : prog :=
  Recover (fold_right (fun '(id, n) acc => Seq (selector_prog id n nsteps recovering) acc) Skip sels).
