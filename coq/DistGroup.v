(* group [by|without] (e) pushed down to the remote engines (logicalplan/distribute.go keeps the
   operator: group of the engines' groups). The accumulator is init _ = c, add a _ = a, so a
   group's value is c whenever the group has a member; the groups of the union are the groups of
   the engines' results. Any number of engines, every partitioning (empty partitions included),
   every shard count and batch size on either side. *)
From Coq Require Import List ZArith NArith Bool Lia Permutation.
From Verif Require Import Base Grid Select SelectProofs Shard Exec Compose StreamWF Range MatrixRun Agg AggProofs Func Bin BinProofs
  AggEnd Trees DistTree.
Import ListNotations.
Open Scope Z_scope.

Section GroupPushdown.
  Variable c : Z.
  Variable without : bool.
  Variable grouping : list N.

  Notation ginit := (fun _ : Z => c).
  Notation gadd := (fun (a _ : Z) => a).
  Notation key := (fun mv : labels * Z => group_labels without grouping (fst mv)).
  Notation haskey k := (fun mv : labels * Z => if labels_dec (group_labels without grouping (fst mv)) k then true else false).
  Notation vals k X := (map snd (filter (haskey k) X)).
  Notation rgroup := (ref_agg ginit gadd without grouping).

  Lemma group_laws : (forall a b : Z, gadd (ginit a) b = gadd (ginit b) a) /\ (forall x a b : Z, gadd (gadd x a) b = gadd (gadd x b) a).
  Proof. split; reflexivity. Qed.

  Lemma gfold vs : agg_fold ginit gadd vs = match vs with [] => None | _ => Some c end.
  Proof.
    unfold agg_fold. destruct vs as [|v vs]; [reflexivity|]. simpl.
    induction vs as [|x vs IH]; simpl; [reflexivity|exact IH].
  Qed.

  Lemma rgroup_in X k v : In (k, v) (rgroup X) <-> In k (map key X) /\ v = c.
  Proof.
    unfold ref_agg. cbv zeta. rewrite in_flat_map. split.
    - intros [k' [Hk' Hin]]. apply nodup_In in Hk'. rewrite gfold in Hin.
      destruct (vals k' X) as [|x xs]; [destruct Hin|]. destruct Hin as [E|[]]. inversion E; subst. split; [assumption|reflexivity].
    - intros [Hk ->]. exists k. split; [apply nodup_In; assumption|]. rewrite gfold.
      destruct (vals_nonempty without grouping X k Hk) as [x [xs ->]]. left. reflexivity.
  Qed.

  Lemma keys_rgroup X k : In k (map key (rgroup X)) <-> In k (map key X).
  Proof.
    split.
    - intros H. apply in_map_iff in H. destruct H as [[k' v] [E Hin]]. simpl in E. apply rgroup_in in Hin. destruct Hin as [Hk' _].
      assert (Hid : group_labels without grouping k' = k').
      { apply in_map_iff in Hk'. destruct Hk' as [mv [<- _]]. apply group_labels_idem. }
      rewrite Hid in E. subst k'. assumption.
    - intros H. apply in_map_iff. exists (k, c). split.
      + simpl. apply in_map_iff in H. destruct H as [mv [<- _]]. apply group_labels_idem.
      + apply rgroup_in. split; [assumption|reflexivity].
  Qed.

  Lemma keys_concat_rgroup (Xs : list (list (labels * Z))) k :
    In k (map key (concat (map (fun X => rgroup X) Xs))) <-> In k (map key (concat Xs)).
  Proof.
    induction Xs as [|X Xs IH]; [reflexivity|]. cbn [map concat]. rewrite !map_app, !in_app_iff, keys_rgroup, IH. reflexivity.
  Qed.

  Theorem group_distributes_list (Xs : list (list (labels * Z))) :
    Permutation (rgroup (concat Xs)) (rgroup (concat (map (fun X => rgroup X) Xs))).
  Proof.
    apply NoDup_Permutation.
    - apply (NoDup_map_inv fst). apply ref_agg_keys_nodup.
    - apply (NoDup_map_inv fst). apply ref_agg_keys_nodup.
    - intros [k v]. rewrite !rgroup_in, keys_concat_rgroup. reflexivity.
  Qed.
End GroupPushdown.

Section DistributedGroupN.
  Variable cf : cfg.
  Variable w : window.
  Hypothesis HN : (0 < c_shards cf)%nat.
  Hypothesis HB : (0 < c_batch cf)%nat.
  Hypothesis Hlb : 0 <= c_lookback cf.
  Hypothesis Hw : wf_window w.
  Hypothesis Hstart : noT < w_start w.

  Variable c : Z.
  Variable without : bool.
  Variable grouping : list N.
  Variable s : pshape.
  Hypothesis Hs : sok s.

  Let grp (t : jtree) : jtree := JAgg (fun _ => c) (fun a _ => a) without grouping t.
  Definition remote_group_of (p : list labels * list (list sample)) : jtree := JRemote (grp (inst s (fst p) (snd p))).

  Lemma jref_remote_group_of lb p ts :
    jref lb (remote_group_of p) ts = Some (ref_agg (fun _ => c) (fun a _ => a) without grouping (pref lb s (fst p) (snd p) ts)).
  Proof. unfold remote_group_of, grp. cbn [jref]. rewrite jref_inst. reflexivity. Qed.

  Lemma jref_coalesce_group lb (p : list labels * list (list sample)) ps ts :
    jref lb (jcoalesce (remote_group_of p) (map remote_group_of ps)) ts =
    Some (concat (map (fun q => ref_agg (fun _ => c) (fun a _ => a) without grouping (pref lb s (fst q) (snd q) ts)) (p :: ps))).
  Proof.
    revert p. induction ps as [|q ps IH]; intros p.
    - cbn [map jcoalesce concat]. rewrite jref_remote_group_of, app_nil_r. reflexivity.
    - cbn [map jcoalesce]. rewrite jref_concat, jref_remote_group_of, (IH q). reflexivity.
  Qed.

  Lemma jok_coalesce_group (p : list labels * list (list sample)) ps : part_ok p -> Forall part_ok ps ->
    jok (jcoalesce (remote_group_of p) (map remote_group_of ps)).
  Proof.
    assert (Hr : forall q, part_ok q -> jok (remote_group_of q)).
    { intros q [Hl Hso]. unfold remote_group_of, grp, jok. simpl. split; [|split; reflexivity].
      apply (jok_inst s (fst q) (snd q) Hs Hl Hso). }
    revert p. induction ps as [|q ps IH]; intros p Hp Hps; simpl; [apply Hr; assumption|].
    inversion Hps; subst. split; [apply Hr; assumption|apply IH; assumption].
  Qed.

  (* group over the union of any number of partitions and the group of the engines' own groups *)
  Theorem distributed_group_equals_central_n (p : list labels * list (list sample)) ps ts :
    part_ok p -> Forall part_ok ps -> In ts (grid w) ->
    let central := grp (inst s (concat (map fst (p :: ps))) (concat (map snd (p :: ps)))) in
    let distributed := grp (jcoalesce (remote_group_of p) (map remote_group_of ps)) in
    exists outs_c outs_d,
      jrun cf w central = inl outs_c /\ jrun cf w distributed = inl outs_d /\
      Permutation (labelled Z (jseries central) (step_of outs_c ts))
                  (labelled Z (jseries distributed) (step_of outs_d ts)).
  Proof.
    intros Hp Hps Hts central distributed.
    assert (Hall : Forall part_ok (p :: ps)) by (constructor; assumption).
    assert (Hokc : jok central).
    { unfold central, grp, jok. simpl jokw. split; [|split; reflexivity].
      apply jok_inst; [assumption| |].
      - exact (parts_length (p :: ps) Hall).
      - exact (parts_sorted (p :: ps) Hall). }
    assert (Hokd : jok distributed).
    { unfold distributed, grp, jok. simpl jokw. split; [|split; reflexivity]. apply jok_coalesce_group; assumption. }
    assert (Rc : jref (c_lookback cf) central ts =
                 Some (ref_agg (fun _ => c) (fun a _ => a) without grouping
                               (concat (map (fun q => pref (c_lookback cf) s (fst q) (snd q) ts) (p :: ps))))).
    { unfold central, grp. cbn [jref]. rewrite jref_inst, pref_concat by assumption. reflexivity. }
    assert (Rd : jref (c_lookback cf) distributed ts =
                 Some (ref_agg (fun _ => c) (fun a _ => a) without grouping
                               (concat (map (fun X => ref_agg (fun _ => c) (fun a _ => a) without grouping X)
                                            (map (fun q => pref (c_lookback cf) s (fst q) (snd q) ts) (p :: ps)))))).
    { unfold distributed, grp. cbn [jref]. rewrite jref_coalesce_group, map_map. reflexivity. }
    destruct (tree_step cf w HN HB Hlb Hw Hstart central _ ts Hokc Hts Rc) as [oc [Ec Pc]].
    destruct (tree_step cf w HN HB Hlb Hw Hstart distributed _ ts Hokd Hts Rd) as [od [Ed Pd]].
    exists oc, od. split; [exact Ec|]. split; [exact Ed|].
    eapply Permutation_trans; [exact Pc|].
    eapply Permutation_trans; [apply (group_distributes_list c)|].
    apply Permutation_sym. exact Pd.
  Qed.
End DistributedGroupN.
