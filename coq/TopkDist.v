(* topk / bottomk pushed down to the partitions (C10), at the level of the reference values of
   operator trees: when no two samples of a group have the same value, selecting per partition
   and then selecting among the selected gives the selection over the union. First on plain
   lists of values (one group), then on labelled samples, then for the distributed plan
   topk(Coalesce(Remote(topk(e)), ...)). *)
From Coq Require Import List ZArith NArith Bool Lia Permutation.
From Verif Require Import Topk TopkProofs TopkTree.
Import ListNotations.

Lemma nodup_app_left {A} (a b : list A) : NoDup (a ++ b) -> NoDup a.
Proof. induction a as [|x a IH]; simpl; intros H; [constructor|]. inversion H; subst. constructor; [intros Hin; apply H2; apply in_or_app; left; assumption|apply IH; assumption]. Qed.

Lemma nodup_app_right {A} (a b : list A) : NoDup (a ++ b) -> NoDup b.
Proof. induction a as [|x a IH]; simpl; intros H; [assumption|]. inversion H; subst. apply IH. assumption. Qed.

Section Values.
  Variable lt : Z -> Z -> bool.
  Hypothesis lt_irrefl : forall a, lt a a = false.
  Hypothesis lt_trans : forall a b c, lt a b = true -> lt b c = true -> lt a c = true.
  Hypothesis lt_total : forall a b, a <> b -> lt a b = true \/ lt b a = true.
  Variable k : nat.

  (* the number of values of L strictly better than v *)
  Definition cg (L : list Z) (v : Z) : nat := length (filter (fun z => lt v z) L).
  (* the values of L with fewer than k better ones *)
  Definition top (L : list Z) : list Z := filter (fun v => Nat.ltb (cg L v) k) L.

  Lemma cg_app A B v : cg (A ++ B) v = cg A v + cg B v.
  Proof. unfold cg. rewrite filter_app, app_length. reflexivity. Qed.

  Lemma cg_concat (Ls : list (list Z)) v : cg (concat Ls) v = list_sum (map (fun L => cg L v) Ls).
  Proof. induction Ls as [|L Ls IH]; simpl; [reflexivity|]. rewrite cg_app, IH. reflexivity. Qed.

  Lemma filter_filter_len {A} (p q : A -> bool) (l : list A) : length (filter p (filter q l)) <= length (filter p l).
  Proof.
    induction l as [|a l IH]; simpl; [lia|]. destruct (q a); simpl; destruct (p a); simpl; lia.
  Qed.

  Lemma cg_top_le L v : cg (top L) v <= cg L v.
  Proof. unfold cg, top. apply filter_filter_len. Qed.

  (* exactly min(k, n) of n distinct values have fewer than k better ones *)
  Lemma rank_count (B : list Z) : NoDup B -> length (top B) = Nat.min k (length B).
  Proof.
    intros Hnd. destruct (Nat.eq_dec k 0) as [->|Hk].
    - unfold top. simpl. induction B as [|b B IH]; simpl; [reflexivity|]. inversion Hnd; subst. apply IH. assumption.
    - set (S := combine (seq 0 (length B)) B).
      assert (Hfst : map fst S = seq 0 (length B)).
      { unfold S. clear Hnd. generalize 0. induction B as [|b B IH]; intros o; simpl; [reflexivity|]. rewrite IH. reflexivity. }
      assert (Hsnd : map snd S = B).
      { unfold S. clear Hnd Hfst. generalize 0. induction B as [|b B IH]; intros o; simpl; [reflexivity|]. rewrite IH. reflexivity. }
      assert (Hid : NoDup (map fst S)) by (rewrite Hfst; apply seq_NoDup).
      assert (Hval : NoDup (map snd S)) by (rewrite Hsnd; assumption).
      pose proof (topk_group_rank Z lt lt_irrefl lt_trans lt_total Z.eq_dec k S ltac:(lia) Hid Hval) as P.
      pose proof (topk_group_spec Z lt (nonan Z) (fun _ _ H => False_ind _ (Bool.diff_false_true H)) lt_irrefl lt_trans
                    (lt_negtrans Z lt lt_trans lt_total Z.eq_dec) k S ltac:(lia) Hid) as [_ [_ [Hlen _]]].
      apply Permutation_length in P. rewrite Hlen in P.
      assert (E : length (filter (rank_keep Z lt k S) S) = length (top B)).
      { unfold top. rewrite <- (map_length snd (filter _ S)).
        assert (G : forall (S0 : list (nat * Z)), map snd (filter (rank_keep Z lt k S) S0) =
                      filter (fun v => Nat.ltb (cg (map snd S) v) k) (map snd S0)).
        { induction S0 as [|e S0 IH0]; simpl; [reflexivity|].
          assert (Ee : rank_keep Z lt k S e = Nat.ltb (cg (map snd S) (snd e)) k).
          { unfold rank_keep, better, cg. f_equal. rewrite <- (map_length snd).
            assert (F : forall S1 : list (nat * Z), map snd (filter (fun y : nat * Z => lt (snd e) (snd y)) S1) = filter (fun z => lt (snd e) z) (map snd S1)).
            { induction S1 as [|y S1 IH1]; simpl; [reflexivity|]. destruct (lt (snd e) (snd y)); simpl; rewrite IH1; reflexivity. }
            rewrite F. reflexivity. }
          rewrite Ee. destruct (Nat.ltb (cg (map snd S) (snd e)) k); simpl; rewrite IH0; reflexivity. }
        rewrite G, Hsnd. reflexivity. }
      assert (HlS : length S = length B) by (unfold S; rewrite combine_length, seq_length, Nat.min_id; reflexivity).
      rewrite <- E. unfold Topk.entry in *. rewrite <- P, HlS. reflexivity.
  Qed.

  (* among the values better than v, the selected ones are min(k, their number) *)
  Lemma cg_top_ge L v : NoDup L -> Nat.min k (cg L v) <= cg (top L) v.
  Proof.
    intros Hnd. set (B := filter (fun z => lt v z) L).
    assert (HB : NoDup B) by (apply NoDup_filter; assumption).
    assert (E : filter (fun z => lt v z) (top L) = top B).
    { unfold top, B. clear HB B.
      assert (G : forall z, lt v z = true -> cg L z = cg (filter (fun z0 => lt v z0) L) z).
      { intros z Hz. unfold cg. clear Hnd. induction L as [|u L IH]; simpl; [reflexivity|].
        destruct (lt v u) eqn:Evu; simpl.
        - destruct (lt z u); simpl; rewrite IH; reflexivity.
        - destruct (lt z u) eqn:Ezu; simpl; [|exact IH].
          rewrite (lt_trans v z u Hz Ezu) in Evu. discriminate. }
      clear Hnd. induction L as [|u L IH]; simpl; [reflexivity|].
      assert (IH' : forall L0, (forall z, lt v z = true -> cg L0 z = cg (filter (fun z0 => lt v z0) L0) z) ->
                      forall M, filter (fun z => lt v z) (filter (fun w => Nat.ltb (cg L0 w) k) M) =
                                filter (fun w => Nat.ltb (cg (filter (fun z0 => lt v z0) L0) w) k) (filter (fun z => lt v z) M)).
      { intros L0 G0 M. induction M as [|m M IHM]; simpl; [reflexivity|].
        destruct (lt v m) eqn:Evm; simpl.
        - rewrite <- (G0 m Evm). destruct (Nat.ltb (cg L0 m) k); simpl; [rewrite Evm|]; rewrite IHM; reflexivity.
        - destruct (Nat.ltb (cg L0 m) k); simpl; [rewrite Evm|]; exact IHM. }
      exact (IH' (u :: L) G (u :: L)). }
    unfold cg at 2. rewrite E, (rank_count B HB). unfold cg, B. lia.
  Qed.

  Lemma list_sum_min_ge (ms : list nat) : k <= list_sum ms -> k <= list_sum (map (Nat.min k) ms).
  Proof.
    induction ms as [|m ms IH]; simpl; [lia|]. intros H.
    destruct (le_lt_dec k m) as [Hkm|Hmk]; [rewrite Nat.min_l by lia; lia|].
    rewrite Nat.min_r by lia. destruct (le_lt_dec k (list_sum ms)) as [Hs|Hs]; [specialize (IH Hs); lia|].
    assert (E : map (Nat.min k) ms = ms).
    { clear IH H. induction ms as [|x xs IHx]; simpl in *; [reflexivity|]. rewrite Nat.min_r by lia. f_equal. apply IHx. lia. }
    rewrite E. lia.
  Qed.

  (* a value has fewer than k better ones among the partitions' selections iff it has among all *)
  Theorem cg_selected_iff (Ls : list (list Z)) v : NoDup (concat Ls) ->
    (cg (concat (map top Ls)) v < k <-> cg (concat Ls) v < k).
  Proof.
    intros Hnd. rewrite !cg_concat, map_map. split.
    - intros H. destruct (le_lt_dec k (list_sum (map (fun L => cg L v) Ls))) as [Hge|Hlt]; [|exact Hlt]. exfalso.
      apply list_sum_min_ge in Hge. rewrite map_map in Hge.
      assert (Hle : list_sum (map (fun L => Nat.min k (cg L v)) Ls) <= list_sum (map (fun L => cg (top L) v) Ls)).
      { clear H Hge. induction Ls as [|L Ls IH]; simpl; [lia|]. simpl in Hnd.
        pose proof (cg_top_ge L v (nodup_app_left _ _ Hnd)) as H1.
        specialize (IH (nodup_app_right _ _ Hnd)). lia. }
      lia.
    - intros H.
      assert (Hle : list_sum (map (fun L => cg (top L) v) Ls) <= list_sum (map (fun L => cg L v) Ls)).
      { clear. induction Ls as [|L Ls IH]; simpl; [lia|]. pose proof (cg_top_le L v). lia. }
      lia.
  Qed.
End Values.

(* ---- labelled samples ------------------------------------------------------------------------ *)
From Verif Require Import Base Agg Bin AggEnd Trees.

Section Labelled.
  Variable bottom : bool.
  Variable k : nat.
  Variable without : bool.
  Variable grouping : list N.

  Notation lt := (ltk bottom).
  Notation hk kk := (has_key without grouping kk).
  Notation keep X := (ref_keep bottom k without grouping X).

  (* the values of the samples of X in group kk, and the selection of the reference *)
  Definition gvals (kk : labels) (X : list (labels * Z)) : list Z := map snd (filter (hk kk) X).
  Definition ksel (X : list (labels * Z)) : list (labels * Z) := filter (keep X) X.

  Lemma has_key_tkey x : hk (tkey without grouping x) x = true.
  Proof. unfold has_key. destruct (labels_dec _ _); [reflexivity|contradiction]. Qed.

  Lemma has_key_eq kk y : hk kk y = true -> tkey without grouping y = kk.
  Proof. unfold has_key. destruct (labels_dec _ _); [auto|discriminate]. Qed.

  Lemma keep_as_cg X x : keep X x = Nat.ltb (cg lt (gvals (tkey without grouping x) X) (snd x)) k.
  Proof.
    unfold ref_keep, cg, gvals. f_equal. set (kk := tkey without grouping x).
    induction X as [|y X IH]; simpl; [reflexivity|].
    destruct (hk kk y); simpl; [|exact IH]. destruct (lt (snd x) (snd y)); simpl; rewrite IH; reflexivity.
  Qed.

  Lemma gvals_app kk A B : gvals kk (A ++ B) = gvals kk A ++ gvals kk B.
  Proof. unfold gvals. rewrite filter_app, map_app. reflexivity. Qed.

  Lemma gvals_concat kk Xs : gvals kk (concat Xs) = concat (map (gvals kk) Xs).
  Proof. induction Xs as [|X Xs IH]; simpl; [reflexivity|]. rewrite gvals_app, IH. reflexivity. Qed.

  Lemma gvals_cons kk y X : gvals kk (y :: X) = if hk kk y then snd y :: gvals kk X else gvals kk X.
  Proof. unfold gvals. simpl. destruct (hk kk y); reflexivity. Qed.

  (* the group's values that survive the selection are the group's top values *)
  Lemma gvals_ksel kk X : gvals kk (ksel X) = top lt k (gvals kk X).
  Proof.
    unfold ksel, top.
    assert (G : forall X', gvals kk (filter (keep X) X') = filter (fun v => Nat.ltb (cg lt (gvals kk X) v) k) (gvals kk X')).
    { induction X' as [|y X' IH]; [reflexivity|].
      cbn [filter]. rewrite (gvals_cons kk y X').
      destruct (hk kk y) eqn:Ey.
      - assert (Ek : keep X y = Nat.ltb (cg lt (gvals kk X) (snd y)) k).
        { rewrite keep_as_cg, (has_key_eq kk y Ey). reflexivity. }
        cbn [filter]. rewrite <- Ek. destruct (keep X y).
        + rewrite gvals_cons, Ey, IH. reflexivity.
        + exact IH.
      - destruct (keep X y); [rewrite gvals_cons, Ey|]; exact IH. }
    apply G.
  Qed.

  Lemma cg_component (Ls : list (list Z)) L v : In L Ls -> (cg lt L v <= cg lt (concat Ls) v)%nat.
  Proof.
    induction Ls as [|M Ls IH]; intros Hin; [destruct Hin|]. simpl. rewrite cg_app.
    destruct Hin as [->|Hin]; [lia|specialize (IH Hin); lia].
  Qed.

  Lemma nodup_concat_top (Ls : list (list Z)) : NoDup (concat Ls) -> NoDup (concat (map (top lt k) Ls)).
  Proof.
    induction Ls as [|L Ls IH]; simpl; intros H; [constructor|].
    apply NoDup_app_disjoint.
    - unfold top. apply NoDup_filter. apply (nodup_app_left _ _ H).
    - apply IH. apply (nodup_app_right _ _ H).
    - intros x Hx Hy. unfold top in Hx. apply filter_In in Hx. destruct Hx as [Hx _].
      assert (Hy' : In x (concat Ls)).
      { clear -Hy. induction Ls as [|M Ls IHl]; simpl in *; [assumption|]. apply in_app_or in Hy. apply in_or_app.
        destruct Hy as [Hy|Hy]; [left; unfold top in Hy; apply filter_In in Hy; tauto|right; apply IHl; assumption]. }
      clear -H Hx Hy'. induction L as [|a L IHL]; [destruct Hx|]. simpl in H. inversion H; subst.
      destruct Hx as [->|Hx]; [apply H2; apply in_or_app; right; assumption|apply IHL; assumption].
  Qed.

  Lemma ties_free_intro X : (forall kk, NoDup (gvals kk X)) -> ties_free without grouping X = true.
  Proof. intros H. unfold ties_free. apply forallb_forall. intros kk _. apply nodupb_spec. apply H. Qed.

  Lemma ties_free_nodup X : (forall kk, NoDup (gvals kk X)) -> NoDup X.
  Proof.
    induction X as [|x X IH]; intros H; [constructor|].
    constructor.
    - intros Hin. specialize (H (tkey without grouping x)). unfold gvals in H. simpl in H. rewrite has_key_tkey in H. simpl in H.
      inversion H as [|? ? Hn _]; subst. apply Hn. apply in_map. apply filter_In. split; [assumption|apply has_key_tkey].
    - apply IH. intros kk. specialize (H kk). unfold gvals in *. simpl in H. destruct (hk kk x); [simpl in H; inversion H; assumption|assumption].
  Qed.

  (* selecting per partition, then among the selected, is selecting over the union *)
  Theorem ksel_distributes Xs : ties_free without grouping (concat Xs) = true ->
    ties_free without grouping (concat (map ksel Xs)) = true /\
    Permutation (ksel (concat Xs)) (ksel (concat (map ksel Xs))).
  Proof.
    intros Ht. pose proof (ties_free_all without grouping _ Ht) as HU. change (forall kk, NoDup (gvals kk (concat Xs))) in HU.
    assert (HV : forall kk, NoDup (gvals kk (concat (map ksel Xs)))).
    { intros kk. rewrite gvals_concat, map_map.
      rewrite (map_ext _ (fun X => top lt k (gvals kk X)) (gvals_ksel kk)), <- (map_map (gvals kk) (top lt k)).
      apply nodup_concat_top. rewrite <- gvals_concat. apply HU. }
    split; [apply ties_free_intro; exact HV|].
    apply NoDup_Permutation.
    - apply NoDup_filter. apply ties_free_nodup. exact HU.
    - apply NoDup_filter. apply ties_free_nodup. exact HV.
    - intros x. unfold ksel at 1 2. rewrite !filter_In, !keep_as_cg.
      set (kk := tkey without grouping x). set (v := snd x).
      assert (EU : gvals kk (concat Xs) = concat (map (gvals kk) Xs)) by apply gvals_concat.
      assert (EV : gvals kk (concat (map ksel Xs)) = concat (map (top lt k) (map (gvals kk) Xs))).
      { rewrite gvals_concat, !map_map. f_equal. apply map_ext. intros X. apply gvals_ksel. }
      rewrite EU, EV.
      assert (Hnd : NoDup (concat (map (gvals kk) Xs))) by (rewrite <- EU; apply HU).
      pose proof (cg_selected_iff lt (ltk_irrefl bottom) (ltk_trans bottom) (ltk_total bottom) k (map (gvals kk) Xs) v Hnd) as Iff.
      rewrite !Nat.ltb_lt. split.
      + intros [Hin Hk]. split; [|apply Iff; exact Hk].
        apply in_concat in Hin. destruct Hin as [X [HX Hx]]. apply in_concat. exists (ksel X). split; [apply in_map; assumption|].
        unfold ksel. apply filter_In. split; [assumption|]. rewrite keep_as_cg. apply Nat.ltb_lt. fold kk v.
        pose proof (cg_component (map (gvals kk) Xs) (gvals kk X) v (in_map _ _ _ HX)). lia.
      + intros [Hin Hk]. split; [|apply Iff; exact Hk].
        apply in_concat in Hin. destruct Hin as [Y [HY Hx]]. apply in_map_iff in HY. destruct HY as [X [<- HX]].
        unfold ksel in Hx. apply filter_In in Hx. apply in_concat. exists X. tauto.
  Qed.
End Labelled.

(* ---- the distributed plan topk(Coalesce(Remote(topk(e)), ...)) ------------------------------ *)
From Verif Require Import Grid Select Compose Exec Remote DistTree.

Section DistributedTopk.
  Variable cf : cfg.
  Variable w : window.
  Hypothesis HN : (0 < c_shards cf)%nat.
  Hypothesis HB : (0 < c_batch cf)%nat.
  Hypothesis Hlb : (0 <= c_lookback cf)%Z.
  Hypothesis Hw : wf_window w.
  Hypothesis Hstart : (noT < w_start w)%Z.

  Variable bottom : bool.
  Variable k : nat.
  Variable without : bool.
  Variable grouping : list N.
  Variable s : pshape.
  Hypothesis Hs : sok s.

  Let tk (t : jtree) : jtree := JTopk bottom k without grouping t.
  Definition remote_topk (p : list labels * list (list sample)) : jtree := JRemote (tk (inst s (fst p) (snd p))).

  Lemma ties_free_part Xs X : ties_free without grouping (concat Xs) = true -> In X Xs -> ties_free without grouping X = true.
  Proof.
    intros Ht Hin. apply ties_free_intro. intros kk.
    pose proof (ties_free_all without grouping _ Ht kk) as H. change (NoDup (gvals without grouping kk (concat Xs))) in H.
    rewrite gvals_concat in H. clear Ht.
    induction Xs as [|Y Xs IH]; [destruct Hin|]. simpl in H. destruct Hin as [->|Hin].
    - apply (nodup_app_left _ _ H).
    - apply IH; [assumption|apply (nodup_app_right _ _ H)].
  Qed.

  Lemma jref_coalesce_topk lb (p : list labels * list (list sample)) ps ts :
    ties_free without grouping (concat (map (fun q => pref lb s (fst q) (snd q) ts) (p :: ps))) = true ->
    jref lb (jcoalesce (remote_topk p) (map remote_topk ps)) ts =
    Some (concat (map (fun q => ksel bottom k without grouping (pref lb s (fst q) (snd q) ts)) (p :: ps))).
  Proof.
    revert p. induction ps as [|q ps IH]; intros p Ht.
    - cbn [map jcoalesce concat]. unfold remote_topk, tk. cbn [jref]. rewrite jref_inst. unfold ref_topk.
      rewrite (ties_free_part _ (pref lb s (fst p) (snd p) ts) Ht (or_introl eq_refl)). rewrite app_nil_r. reflexivity.
    - cbn [map jcoalesce].
      change (jref lb (JConcat (remote_topk p) (jcoalesce (remote_topk q) (map remote_topk ps))) ts)
        with (match jref lb (remote_topk p) ts, jref lb (jcoalesce (remote_topk q) (map remote_topk ps)) ts with
              | Some a, Some b => Some (a ++ b) | _, _ => None end).
      rewrite (IH q).
      + unfold remote_topk at 1, tk. cbn [jref]. rewrite jref_inst. unfold ref_topk.
        rewrite (ties_free_part _ (pref lb s (fst p) (snd p) ts) Ht (or_introl eq_refl)). reflexivity.
      + apply ties_free_intro. intros kk.
        pose proof (ties_free_all without grouping _ Ht kk) as H. cbn [map concat] in H.
        change (NoDup (gvals without grouping kk (pref lb s (fst p) (snd p) ts ++ concat (map (fun q0 => pref lb s (fst q0) (snd q0) ts) (q :: ps))))) in H.
        rewrite gvals_app in H. apply (nodup_app_right _ _ H).
  Qed.

  (* topk / bottomk over the union of the partitions, and the same selection among the engines' own
     selections: at every step at which no two samples of a group of the union have the same value,
     the same labelled samples - for every partitioning, shard count and batch size *)
  Theorem distributed_topk_equals_central (p : list labels * list (list sample)) ps ts :
    part_ok p -> Forall part_ok ps -> In ts (grid w) ->
    ties_free without grouping (concat (map (fun q => pref (c_lookback cf) s (fst q) (snd q) ts) (p :: ps))) = true ->
    let central := tk (inst s (concat (map fst (p :: ps))) (concat (map snd (p :: ps)))) in
    let distributed := tk (jcoalesce (remote_topk p) (map remote_topk ps)) in
    exists outs_c outs_d,
      jrun cf w central = inl outs_c /\ jrun cf w distributed = inl outs_d /\
      Permutation (labelled Z (jseries central) (step_of outs_c ts))
                  (labelled Z (jseries distributed) (step_of outs_d ts)).
  Proof.
    intros Hp Hps Hts Ht central distributed.
    assert (Hall : Forall part_ok (p :: ps)) by (constructor; assumption).
    set (Xs := map (fun q => pref (c_lookback cf) s (fst q) (snd q) ts) (p :: ps)) in *.
    destruct (ksel_distributes bottom k without grouping Xs Ht) as [HtV PK].
    assert (Hokc : jok central).
    { unfold central, tk, jok. simpl jokw. apply jok_inst; [assumption|exact (parts_length (p :: ps) Hall)|exact (parts_sorted (p :: ps) Hall)]. }
    assert (Hokd : jok distributed).
    { unfold distributed, tk, jok. simpl jokw.
      assert (Hr : forall q, part_ok q -> jokw false (remote_topk q)).
      { intros q [Hl Hso]. unfold remote_topk, tk. simpl. apply (jok_inst s (fst q) (snd q) Hs Hl Hso). }
      clear -Hr Hp Hps. revert p Hp. induction ps as [|q ps IH]; intros p Hp; simpl; [apply Hr; assumption|].
      inversion Hps; subst. split; [apply Hr; assumption|apply IH; assumption]. }
    assert (Rc : jref (c_lookback cf) central ts = Some (ksel bottom k without grouping (concat Xs))).
    { unfold central, tk. cbn [jref]. rewrite jref_inst, (pref_concat s Hs (c_lookback cf) (p :: ps) ts Hall).
      fold Xs. unfold ref_topk. rewrite Ht. reflexivity. }
    assert (Rd : jref (c_lookback cf) distributed ts =
                 Some (ksel bottom k without grouping (concat (map (ksel bottom k without grouping) Xs)))).
    { unfold distributed, tk. cbn [jref]. rewrite (jref_coalesce_topk (c_lookback cf) p ps ts Ht).
      unfold ref_topk. unfold Xs in HtV. rewrite map_map in HtV. rewrite HtV. unfold Xs. rewrite map_map. reflexivity. }
    destruct (tree_step cf w HN HB Hlb Hw Hstart central _ ts Hokc Hts Rc) as [oc [Ec Pc]].
    destruct (tree_step cf w HN HB Hlb Hw Hstart distributed _ ts Hokd Hts Rd) as [od [Ed Pd]].
    exists oc, od. split; [exact Ec|]. split; [exact Ed|].
    eapply Permutation_trans; [exact Pc|]. eapply Permutation_trans; [exact PK|]. apply Permutation_sym. exact Pd.
  Qed.
End DistributedTopk.
