(* Proofs about Bin.v (property C05): the per-step table with timestamp tags
   computes, at every step of a query, the table-free pairing [pure_step]. *)
From Coq Require Import List ZArith NArith Bool Lia.
From Verif Require Import Base Agg Func Bin.
Import ListNotations.
Close Scope Z_scope.

Lemma NoDup_app_inv {A} (l1 l2 : list A) :
  NoDup (l1 ++ l2) -> NoDup l1 /\ NoDup l2 /\ (forall x, In x l1 -> In x l2 -> False).
Proof.
  induction l1 as [|a l1 IH]; simpl; intros H.
  - split; [constructor|]. split; [assumption|]. intros x [].
  - inversion H as [|? ? Hn Hnd]; subst. destruct (IH Hnd) as [N1 [N2 D]].
    split; [constructor; [intros Hin; apply Hn; apply in_or_app; left; assumption|assumption]|].
    split; [assumption|].
    intros x [->|Hx] Hx2; [apply Hn; apply in_or_app; right; assumption|exact (D x Hx Hx2)].
Qed.

Lemma existsb_eqb_In o l : existsb (Nat.eqb o) l = true <-> In o l.
Proof.
  rewrite existsb_exists. split.
  - intros [x [Hx He]]. apply Nat.eqb_eq in He. subst. assumption.
  - intros H. exists o. split; [assumption|apply Nat.eqb_refl].
Qed.

Lemma existsb_eqb_notin o l : ~ In o l -> existsb (Nat.eqb o) l = false.
Proof. intros H. apply not_true_is_false. intros E. apply existsb_eqb_In in E. contradiction. Qed.

Section StepProofs.
  Variable V : Type.
  Variable dflt : V.
  Variable op : V -> V -> V * bool.
  Variable b2v : bool -> V.
  Variable c : card.
  Variable return_bool : bool.
  Variable hidx : list (option nat).
  Variable lidx : list (list nat).

  Notation slot := (slot V).
  Notation tbl := (tbl V).
  Notation dslot := (dslot V dflt).
  Notation set_nth := (set_nth V).
  Notation lhs_outs := (lhs_outs c hidx lidx).
  Notation rhs_outs := (rhs_outs c hidx lidx).
  Notation lhs_write := (lhs_write V dflt c).
  Notation lhs_phase := (lhs_phase V dflt c hidx lidx).
  Notation rhs_write := (rhs_write V dflt op b2v c return_bool).
  Notation rhs_phase := (rhs_phase V dflt op b2v c return_bool hidx lidx).
  Notation emit := (emit V b2v return_bool).
  Notation feeds := (feeds V).

  Lemma set_nth_length (t : tbl) i s : length (set_nth t i s) = length t.
  Proof. revert i. induction t as [|x t IH]; intros i; simpl; [reflexivity|]. destruct i; simpl; auto. Qed.

  Lemma nth_set_nth_same (t : tbl) i s : i < length t -> nth i (set_nth t i s) dslot = s.
  Proof.
    revert i. induction t as [|x t IH]; intros i Hi; simpl in *; [lia|].
    destruct i; simpl; [reflexivity|]. apply IH. lia.
  Qed.

  Lemma nth_set_nth_other (t : tbl) i j s : i <> j -> nth j (set_nth t i s) dslot = nth j t dslot.
  Proof.
    revert i j. induction t as [|x t IH]; intros i j Hij; simpl; [reflexivity|].
    destruct i, j; simpl; try reflexivity; try lia. apply IH. lia.
  Qed.

  (* ---- phase 1 ------------------------------------------------------------ *)

  Lemma lhs_write_spec ts id v : forall outs (t : tbl),
    NoDup outs ->
    (forall o, In o outs -> o < length t /\ lhT V (nth o t dslot) <> ts) ->
    exists t1, lhs_write ts id v outs t = inl t1 /\ length t1 = length t /\
      forall o, nth o t1 dslot =
                if existsb (Nat.eqb o) outs
                then mkSlot V ts (rhT V (nth o t dslot)) id (rhID V (nth o t dslot)) v
                else nth o t dslot.
  Proof.
    induction outs as [|o1 outs IH]; intros t Hnd Hok; simpl.
    - exists t. repeat split; auto.
    - destruct (Hok o1 (or_introl eq_refl)) as [Hlen Hfresh].
      destruct (Z.eqb_spec (lhT V (nth o1 t dslot)) ts) as [E|_]; [contradiction|].
      rewrite andb_false_r.
      inversion Hnd as [|? ? Hnotin Hnd']; subst.
      set (t' := set_nth t o1 (mkSlot V ts (rhT V (nth o1 t dslot)) id (rhID V (nth o1 t dslot)) v)).
      destruct (IH t' Hnd') as [t1 [E1 [L1 N1]]].
      { intros o Ho. unfold t'. rewrite set_nth_length.
        destruct (Hok o (or_intror Ho)) as [Hl Hf]. split; [assumption|].
        rewrite nth_set_nth_other; [assumption|]. intros ->. contradiction. }
      exists t1. split; [exact E1|]. split; [unfold t' in L1; rewrite set_nth_length in L1; exact L1|].
      intros o. rewrite N1. unfold t'.
      destruct (Nat.eqb_spec o o1) as [->|Hne]; simpl.
      + assert (Hex : existsb (Nat.eqb o1) outs = false).
        { apply not_true_is_false. intros Hex. apply existsb_exists in Hex. destruct Hex as [x [Hx Hxe]].
          apply Nat.eqb_eq in Hxe. subst. contradiction. }
        rewrite Hex. apply nth_set_nth_same. assumption.
      + rewrite nth_set_nth_other by auto. reflexivity.
  Qed.

  Definition all_outs (outs : nat -> list nat) (vec : list (nat * V)) : list nat :=
    flat_map (fun iv => outs (fst iv)) vec.

  Lemma feeds_false_of_notin o outs (vec : list (nat * V)) :
    ~ In o (all_outs outs vec) -> find (feeds o outs) vec = None.
  Proof.
    induction vec as [|iv vec IH]; intros H; simpl; [reflexivity|].
    unfold all_outs in H. simpl in H.
    assert (Hf : feeds o outs iv = false).
    { apply not_true_is_false. intros Hf. unfold Bin.feeds in Hf. apply existsb_exists in Hf.
      destruct Hf as [x [Hx Hxe]]. apply Nat.eqb_eq in Hxe. subst. apply H. apply in_or_app. left. exact Hx. }
    rewrite Hf. apply IH. intros Hin. apply H. apply in_or_app. right. exact Hin.
  Qed.

  Lemma lhs_phase_spec ts : forall (vec : list (nat * V)) (t : tbl),
    NoDup (all_outs lhs_outs vec) ->
    (forall o, In o (all_outs lhs_outs vec) -> o < length t /\ lhT V (nth o t dslot) <> ts) ->
    exists t1, lhs_phase ts vec t = inl t1 /\ length t1 = length t /\
      forall o, nth o t1 dslot =
                match find (feeds o lhs_outs) vec with
                | Some iv => mkSlot V ts (rhT V (nth o t dslot)) (fst iv) (rhID V (nth o t dslot)) (snd iv)
                | None => nth o t dslot
                end.
  Proof.
    induction vec as [|[id v] vec IH]; intros t Hnd Hok; simpl.
    - exists t. repeat split; auto.
    - unfold all_outs in Hnd, Hok. simpl in Hnd, Hok.
      destruct (NoDup_app_inv _ _ Hnd) as [Hnd1 [Hnd2 Hdis]].
      destruct (lhs_write_spec ts id v (lhs_outs id) t Hnd1) as [t1 [E1 [L1 N1]]].
      { intros o Ho. apply Hok. apply in_or_app. left. exact Ho. }
      rewrite E1.
      destruct (IH t1 Hnd2) as [t2 [E2 [L2 N2]]].
      { intros o Ho. rewrite L1. destruct (Hok o (in_or_app _ _ _ (or_intror Ho))) as [Hl Hf].
        split; [assumption|]. rewrite N1.
        rewrite existsb_eqb_notin; [exact Hf|]. intros Hx. exact (Hdis o Hx Ho). }
      exists t2. split; [exact E2|]. split; [lia|].
      intros o. rewrite N2. unfold Bin.feeds at 2. simpl fst.
      destruct (existsb (Nat.eqb o) (lhs_outs id)) eqn:Ex.
      + (* written by this sample, and by no later one *)
        assert (Hin : In o (lhs_outs id)) by (apply existsb_eqb_In; exact Ex).
        rewrite (feeds_false_of_notin o lhs_outs vec).
        * rewrite N1, Ex. reflexivity.
        * intros Hin2. exact (Hdis o Hin Hin2).
      + rewrite N1, Ex. reflexivity.
  Qed.
End StepProofs.
