(* Proofs about Bin.v (property C05): the per-step table with timestamp tags
   computes, at every step of a query, the table-free pairing [pure_step]. *)
From Coq Require Import List ZArith NArith Bool Lia Permutation.
From Verif Require Import Base Agg AggProofs Func Bin.
Import ListNotations.
Close Scope Z_scope.

Lemma NoDup_app_inv {A} (l1 l2 : list A) :
  NoDup (l1 ++ l2) -> NoDup l1 /\ NoDup l2 /\ (forall x, In x l1 -> In x l2 -> False).
Proof.
  induction l1 as [|a l1 IH]; simpl; intros H.
  - split; [constructor|]. split; [assumption|]. intros x [].
  - inversion H as [|? ? Hn Hnd]; subst. destruct (IH Hnd) as [N1 [N2 D]].
    split; [constructor; [intros Hin; apply Hn; apply in_or_app; left; assumption|assumption]|].
    split; [assumption|].
    intros x [->|Hx] Hx2; [apply Hn; apply in_or_app; right; assumption|exact (D x Hx Hx2)].
Qed.

Lemma flat_map_ext_in {A B} (f g : A -> list B) l :
  (forall x, In x l -> f x = g x) -> flat_map f l = flat_map g l.
Proof.
  induction l as [|a l IH]; intros H; simpl; [reflexivity|].
  rewrite (H a (or_introl eq_refl)), IH; [reflexivity|]. intros x Hx. apply H. right. assumption.
Qed.

Lemma existsb_eqb_In o l : existsb (Nat.eqb o) l = true <-> In o l.
Proof.
  rewrite existsb_exists. split.
  - intros [x [Hx He]]. apply Nat.eqb_eq in He. subst. assumption.
  - intros H. exists o. split; [assumption|apply Nat.eqb_refl].
Qed.

Lemma existsb_eqb_notin o l : ~ In o l -> existsb (Nat.eqb o) l = false.
Proof. intros H. apply not_true_is_false. intros E. apply existsb_eqb_In in E. contradiction. Qed.

Section StepProofs.
  Variable V : Type.
  Variable dflt : V.
  Variable op : V -> V -> V * bool.
  Variable b2v : bool -> V.
  Variable c : card.
  Variable return_bool : bool.
  Variable hidx : list (option nat).
  Variable lidx : list (list nat).

  Notation slot := (slot V).
  Notation tbl := (tbl V).
  Notation dslot := (dslot V dflt).
  Notation set_nth := (set_nth V).
  Notation lhs_outs := (lhs_outs c hidx lidx).
  Notation rhs_outs := (rhs_outs c hidx lidx).
  Notation lhs_write := (lhs_write V dflt c).
  Notation lhs_phase := (lhs_phase V dflt c hidx lidx).
  Notation rhs_write := (rhs_write V dflt op b2v c return_bool).
  Notation rhs_phase := (rhs_phase V dflt op b2v c return_bool hidx lidx).
  Notation emit := (emit V b2v return_bool).
  Notation feeds := (feeds V).

  Lemma set_nth_length (t : tbl) i s : length (set_nth t i s) = length t.
  Proof. revert i. induction t as [|x t IH]; intros i; simpl; [reflexivity|]. destruct i; simpl; auto. Qed.

  Lemma nth_set_nth_same (t : tbl) i s : i < length t -> nth i (set_nth t i s) dslot = s.
  Proof.
    revert i. induction t as [|x t IH]; intros i Hi; simpl in *; [lia|].
    destruct i; simpl; [reflexivity|]. apply IH. lia.
  Qed.

  Lemma nth_set_nth_other (t : tbl) i j s : i <> j -> nth j (set_nth t i s) dslot = nth j t dslot.
  Proof.
    revert i j. induction t as [|x t IH]; intros i j Hij; simpl; [reflexivity|].
    destruct i, j; simpl; try reflexivity; try lia. apply IH. lia.
  Qed.

  (* ---- phase 1 ------------------------------------------------------------ *)

  Lemma lhs_write_spec ts id v : forall outs (t : tbl),
    NoDup outs ->
    (forall o, In o outs -> o < length t /\ lhT V (nth o t dslot) <> ts) ->
    exists t1, lhs_write ts id v outs t = inl t1 /\ length t1 = length t /\
      forall o, nth o t1 dslot =
                if existsb (Nat.eqb o) outs
                then mkSlot V ts (rhT V (nth o t dslot)) id (rhID V (nth o t dslot)) v
                else nth o t dslot.
  Proof.
    induction outs as [|o1 outs IH]; intros t Hnd Hok; simpl.
    - exists t. repeat split; auto.
    - destruct (Hok o1 (or_introl eq_refl)) as [Hlen Hfresh].
      destruct (Z.eqb_spec (lhT V (nth o1 t dslot)) ts) as [E|_]; [contradiction|].
      rewrite andb_false_r.
      inversion Hnd as [|? ? Hnotin Hnd']; subst.
      set (t' := set_nth t o1 (mkSlot V ts (rhT V (nth o1 t dslot)) id (rhID V (nth o1 t dslot)) v)).
      destruct (IH t' Hnd') as [t1 [E1 [L1 N1]]].
      { intros o Ho. unfold t'. rewrite set_nth_length.
        destruct (Hok o (or_intror Ho)) as [Hl Hf]. split; [assumption|].
        rewrite nth_set_nth_other; [assumption|]. intros ->. contradiction. }
      exists t1. split; [exact E1|]. split; [unfold t' in L1; rewrite set_nth_length in L1; exact L1|].
      intros o. rewrite N1. unfold t'.
      destruct (Nat.eqb_spec o o1) as [->|Hne]; simpl.
      + assert (Hex : existsb (Nat.eqb o1) outs = false).
        { apply not_true_is_false. intros Hex. apply existsb_exists in Hex. destruct Hex as [x [Hx Hxe]].
          apply Nat.eqb_eq in Hxe. subst. contradiction. }
        rewrite Hex. apply nth_set_nth_same. assumption.
      + rewrite nth_set_nth_other by auto. reflexivity.
  Qed.

  Definition all_outs (outs : nat -> list nat) (vec : list (nat * V)) : list nat :=
    flat_map (fun iv => outs (fst iv)) vec.

  Lemma feeds_false_of_notin o outs (vec : list (nat * V)) :
    ~ In o (all_outs outs vec) -> find (feeds o outs) vec = None.
  Proof.
    induction vec as [|iv vec IH]; intros H; simpl; [reflexivity|].
    unfold all_outs in H. simpl in H.
    assert (Hf : feeds o outs iv = false).
    { apply not_true_is_false. intros Hf. unfold Bin.feeds in Hf. apply existsb_exists in Hf.
      destruct Hf as [x [Hx Hxe]]. apply Nat.eqb_eq in Hxe. subst. apply H. apply in_or_app. left. exact Hx. }
    rewrite Hf. apply IH. intros Hin. apply H. apply in_or_app. right. exact Hin.
  Qed.

  Lemma lhs_phase_spec ts : forall (vec : list (nat * V)) (t : tbl),
    NoDup (all_outs lhs_outs vec) ->
    (forall o, In o (all_outs lhs_outs vec) -> o < length t /\ lhT V (nth o t dslot) <> ts) ->
    exists t1, lhs_phase ts vec t = inl t1 /\ length t1 = length t /\
      forall o, nth o t1 dslot =
                match find (feeds o lhs_outs) vec with
                | Some iv => mkSlot V ts (rhT V (nth o t dslot)) (fst iv) (rhID V (nth o t dslot)) (snd iv)
                | None => nth o t dslot
                end.
  Proof.
    induction vec as [|[id v] vec IH]; intros t Hnd Hok; simpl.
    - exists t. repeat split; auto.
    - unfold all_outs in Hnd, Hok. simpl in Hnd, Hok.
      destruct (NoDup_app_inv _ _ Hnd) as [Hnd1 [Hnd2 Hdis]].
      destruct (lhs_write_spec ts id v (lhs_outs id) t Hnd1) as [t1 [E1 [L1 N1]]].
      { intros o Ho. apply Hok. apply in_or_app. left. exact Ho. }
      rewrite E1.
      destruct (IH t1 Hnd2) as [t2 [E2 [L2 N2]]].
      { intros o Ho. rewrite L1. destruct (Hok o (in_or_app _ _ _ (or_intror Ho))) as [Hl Hf].
        split; [assumption|]. rewrite N1.
        rewrite existsb_eqb_notin; [exact Hf|]. intros Hx. exact (Hdis o Hx Ho). }
      exists t2. split; [exact E2|]. split; [lia|].
      intros o. rewrite N2. unfold Bin.feeds at 2. simpl fst.
      destruct (existsb (Nat.eqb o) (lhs_outs id)) eqn:Ex.
      + (* written by this sample, and by no later one *)
        assert (Hin : In o (lhs_outs id)) by (apply existsb_eqb_In; exact Ex).
        rewrite (feeds_false_of_notin o lhs_outs vec).
        * rewrite N1, Ex. reflexivity.
        * intros Hin2. exact (Hdis o Hin Hin2).
      + rewrite N1, Ex. reflexivity.
  Qed.

  (* ---- phase 2 ------------------------------------------------------------ *)

  Definition paired (ts : Z) (t : tbl) (rv : V) (o : nat) : list (nat * V) :=
    if (lhT V (nth o t dslot) =? ts)%Z then emit o (op (sval V (nth o t dslot)) rv) else [].

  Lemma rhs_write_spec ts id rv : ts <> noT -> forall outs (t : tbl) acc,
    NoDup outs ->
    (forall o, In o outs -> rhT V (nth o t dslot) <> ts) ->
    exists t1, rhs_write ts id rv outs t acc = inl (t1, acc ++ flat_map (paired ts t rv) outs) /\
      length t1 = length t /\
      (forall o, lhT V (nth o t1 dslot) = lhT V (nth o t dslot) /\ sval V (nth o t1 dslot) = sval V (nth o t dslot) /\
                 (rhT V (nth o t1 dslot) = rhT V (nth o t dslot) \/ rhT V (nth o t1 dslot) = ts)) /\
      (forall o, ~ In o outs -> nth o t1 dslot = nth o t dslot).
  Proof.
    intros Hts. induction outs as [|o1 outs IH]; intros t acc Hnd Hok; simpl.
    - exists t. rewrite app_nil_r. repeat split; auto.
    - inversion Hnd as [|? ? Hnotin Hnd']; subst.
      unfold paired at 1.
      destruct (Z.eqb_spec (lhT V (nth o1 t dslot)) ts) as [E|NE]; simpl.
      + destruct (Z.eqb_spec (rhT V (nth o1 t dslot)) ts) as [E2|_];
          [exfalso; exact (Hok o1 (or_introl eq_refl) E2)|].
        rewrite andb_false_r.
        assert (Hlen : o1 < length t).
        { destruct (Nat.lt_ge_cases o1 (length t)) as [Hl|Hg]; [assumption|].
          rewrite nth_overflow in E by assumption. simpl in E. congruence. }
        set (t' := set_nth t o1 (mkSlot V (lhT V (nth o1 t dslot)) ts (lhID V (nth o1 t dslot)) id (sval V (nth o1 t dslot)))).
        destruct (IH t' (acc ++ emit o1 (op (sval V (nth o1 t dslot)) rv)) Hnd') as [t1 [E1 [L1 [P1 U1]]]].
        { intros o Ho. unfold t'. rewrite nth_set_nth_other; [apply Hok; right; assumption|].
          intros ->. contradiction. }
        exists t1. split.
        * assert (Hfm : flat_map (paired ts t' rv) outs = flat_map (paired ts t rv) outs).
          { apply flat_map_ext_in. intros o Ho. unfold paired, t'.
            rewrite nth_set_nth_other; [reflexivity|]. intros ->. contradiction. }
          rewrite E1, Hfm, <- app_assoc. reflexivity.
        * split; [unfold t' in L1; rewrite set_nth_length in L1; exact L1|]. split.
          -- intros o. destruct (P1 o) as [A [B C]]. rewrite A, B. unfold t' in *.
             destruct (Nat.eq_dec o1 o) as [->|Hne].
             ++ rewrite nth_set_nth_same in * by assumption. simpl in *. repeat split; auto. destruct C; auto.
             ++ rewrite nth_set_nth_other in * by assumption. repeat split; auto.
          -- intros o Hno. rewrite U1 by (intros Hin; apply Hno; right; assumption).
             unfold t'. apply nth_set_nth_other. intros ->. apply Hno. left. reflexivity.
      + destruct (IH t acc Hnd') as [t1 [E1 [L1 [P1 U1]]]].
        { intros o Ho. apply Hok. right. assumption. }
        exists t1. split; [exact E1|]. split; [exact L1|]. split; [exact P1|].
        intros o Hno. apply U1. intros Hin. apply Hno. right. assumption.
  Qed.

  Lemma rhs_phase_spec ts : ts <> noT -> forall (vec : list (nat * V)) (t : tbl) acc,
    NoDup (all_outs rhs_outs vec) ->
    (forall o, In o (all_outs rhs_outs vec) -> rhT V (nth o t dslot) <> ts) ->
    exists t1, rhs_phase ts vec t acc =
               inl (t1, acc ++ flat_map (fun rs => flat_map (paired ts t (snd rs)) (rhs_outs (fst rs))) vec) /\
      length t1 = length t /\
      (forall o, lhT V (nth o t1 dslot) = lhT V (nth o t dslot) /\ sval V (nth o t1 dslot) = sval V (nth o t dslot) /\
                 (rhT V (nth o t1 dslot) = rhT V (nth o t dslot) \/ rhT V (nth o t1 dslot) = ts)).
  Proof.
    intros Hts. induction vec as [|[id rv] vec IH]; intros t acc Hnd Hok; simpl.
    - exists t. rewrite app_nil_r. repeat split; auto.
    - unfold all_outs in Hnd, Hok. simpl in Hnd, Hok.
      destruct (NoDup_app_inv _ _ Hnd) as [Hnd1 [Hnd2 Hdis]].
      destruct (rhs_write_spec ts id rv Hts (rhs_outs id) t acc Hnd1) as [t1 [E1 [L1 [P1 U1]]]].
      { intros o Ho. apply Hok. apply in_or_app. left. exact Ho. }
      rewrite E1.
      destruct (IH t1 (acc ++ flat_map (paired ts t rv) (rhs_outs id)) Hnd2) as [t2 [E2 [L2 P2]]].
      { intros o Ho. rewrite U1; [apply Hok; apply in_or_app; right; exact Ho|].
        intros Hin. exact (Hdis o Hin Ho). }
      exists t2. split.
      * assert (Hfm : flat_map (fun rs => flat_map (paired ts t1 (snd rs)) (rhs_outs (fst rs))) vec =
                      flat_map (fun rs => flat_map (paired ts t (snd rs)) (rhs_outs (fst rs))) vec).
        { apply flat_map_ext_in. intros rs _. apply flat_map_ext_in. intros o _.
          unfold paired. destruct (P1 o) as [A [B _]]. rewrite A, B. reflexivity. }
        rewrite E2, Hfm, <- app_assoc. reflexivity.
      * split; [lia|]. intros o. destruct (P2 o) as [A [B C]]. destruct (P1 o) as [A' [B' C']]. rewrite A, B, A', B'.
        repeat split; auto. destruct C as [C|C]; [rewrite C; exact C'|right; exact C].
  Qed.

  (* ---- one step, and all steps of a query ---------------------------------- *)

  Notation exec_step := (exec_step V dflt op b2v c return_bool hidx lidx).
  Notation exec_steps := (exec_steps V dflt op b2v c return_bool hidx lidx).
  Notation pure_step := (pure_step V op b2v c return_bool hidx lidx).

  (* every tag in the table is older than [b] *)
  Definition tags_lt (t : tbl) (b : Z) : Prop :=
    forall o, (lhT V (nth o t dslot) < b /\ rhT V (nth o t dslot) < b)%Z.

  (* no two samples of a step vector feed the same output slot, and the slots exist *)
  Definition step_ok (t : tbl) (lhs rhs : list (nat * V)) : Prop :=
    NoDup (all_outs lhs_outs lhs) /\ (forall o, In o (all_outs lhs_outs lhs) -> o < length t) /\
    NoDup (all_outs rhs_outs rhs).

  Theorem exec_step_pure ts lhs rhs (t : tbl) :
    (noT < ts)%Z -> tags_lt t ts -> step_ok t lhs rhs ->
    exists t', exec_step ts lhs rhs t = inl (t', pure_step lhs rhs) /\ length t' = length t /\ tags_lt t' (ts + 1).
  Proof.
    intros Hts Htags [Hnd1 [Hrange Hnd2]]. unfold Bin.exec_step.
    destruct (lhs_phase_spec ts lhs t Hnd1) as [t1 [E1 [L1 N1]]].
    { intros o Ho. split; [apply Hrange; assumption|]. destruct (Htags o). lia. }
    rewrite E1.
    assert (Hr1 : forall o, rhT V (nth o t1 dslot) = rhT V (nth o t dslot)).
    { intros o. rewrite N1. destruct (find (feeds o lhs_outs) lhs); reflexivity. }
    destruct (rhs_phase_spec ts ltac:(lia) rhs t1 [] Hnd2) as [t2 [E2 [L2 P2]]].
    { intros o _. rewrite Hr1. destruct (Htags o). lia. }
    exists t2. split.
    - rewrite E2. simpl. f_equal. f_equal. unfold Bin.pure_step.
      apply flat_map_ext_in. intros rs _. apply flat_map_ext_in. intros o _.
      unfold paired. rewrite N1. destruct (find (feeds o lhs_outs) lhs) as [iv|]; simpl.
      + rewrite Z.eqb_refl. reflexivity.
      + destruct (Z.eqb_spec (lhT V (nth o t dslot)) ts) as [E|_]; [|reflexivity].
        destruct (Htags o). lia.
    - split; [lia|]. intros o. destruct (P2 o) as [A [_ C]]. rewrite A.
      assert (Hl : (lhT V (nth o t1 dslot) < ts + 1)%Z).
      { rewrite N1. destruct (find (feeds o lhs_outs) lhs); simpl; [lia|]. destruct (Htags o). lia. }
      split; [exact Hl|]. destruct C as [C|C]; rewrite C; [rewrite Hr1; destruct (Htags o); lia|lia].
  Qed.

  (* the steps of a query: strictly increasing timestamps *)
  Fixpoint steps_ok (n : nat) (prev : Z) (steps : list (Z * list (nat * V) * list (nat * V))) : Prop :=
    match steps with
    | [] => True
    | (ts, lhs, rhs) :: r =>
        (prev < ts)%Z /\ NoDup (all_outs lhs_outs lhs) /\ (forall o, In o (all_outs lhs_outs lhs) -> o < n) /\
        NoDup (all_outs rhs_outs rhs) /\ steps_ok n ts r
    end.

  Theorem exec_steps_pure : forall steps (t : tbl) prev,
    (noT <= prev)%Z -> tags_lt t (prev + 1) -> steps_ok (length t) prev steps ->
    exec_steps steps t = inl (map (fun s => (fst (fst s), pure_step (snd (fst s)) (snd s))) steps).
  Proof.
    induction steps as [|[[ts lhs] rhs] steps IH]; intros t prev Hp Htags Hok; simpl; [reflexivity|].
    destruct Hok as [Hlt [Hnd1 [Hr [Hnd2 Hrest]]]].
    destruct (exec_step_pure ts lhs rhs t) as [t' [E [L T]]].
    - lia.
    - intros o. destruct (Htags o). lia.
    - repeat split; assumption.
    - rewrite E. rewrite (IH t' ts); [reflexivity|lia|exact T|rewrite L; exact Hrest].
  Qed.

  (* a fresh table *)
  Lemma new_table_tags n b : (noT < b)%Z -> tags_lt (new_table V dflt n) b.
  Proof.
    intros Hb o. unfold new_table.
    assert (E : nth o (repeat dslot n) dslot = dslot).
    { destruct (Nat.lt_ge_cases o n) as [Hl|Hg]; [apply nth_repeat|apply nth_overflow; rewrite repeat_length; assumption]. }
    rewrite E. simpl. lia.
  Qed.
End StepProofs.

(* ---- the join indexes ------------------------------------------------------ *)

Section JoinProofs.
  Variable sigf : labels -> labels.
  Variable lblf : labels -> labels.
  Variable incl : list N.
  Variable return_bool : bool.
  Variable hi lo : list labels.

  Notation key_eq := (key_eq sigf).
  Notation matched := (matched sigf lo).
  Notation first_lo := (first_lo sigf lo).
  Notation hi_index_from := (hi_index_from sigf lo).
  Notation hi_index := (hi_index sigf hi lo).
  Notation lo_index := (lo_index sigf hi lo).
  Notation out_series := (out_series sigf lblf incl return_bool hi lo).

  Definition rank (hs : list labels) (h : nat) : nat := length (filter matched (firstn h hs)).

  Lemma hi_index_from_length next hs : length (hi_index_from next hs) = length hs.
  Proof. revert next. induction hs as [|x hs IH]; intros next; simpl; [reflexivity|]. destruct (matched x); simpl; rewrite IH; reflexivity. Qed.

  Lemma hi_index_from_spec : forall hs next h, h < length hs ->
    nth h (hi_index_from next hs) None =
    if matched (nth h hs []) then Some (next + rank hs h) else None.
  Proof.
    induction hs as [|x hs IH]; intros next h Hh; simpl in Hh; [lia|].
    destruct h as [|h]; simpl.
    - unfold rank. simpl. destruct (matched x); simpl; [f_equal; lia|reflexivity].
    - unfold rank. simpl. destruct (matched x) eqn:Ex; simpl; rewrite IH by lia; unfold rank;
        destruct (matched (nth h hs [])); try reflexivity; f_equal; lia.
  Qed.

  Lemma hi_index_spec h : h < length hi ->
    nth h hi_index None = if matched (nth h hi []) then Some (rank hi h) else None.
  Proof. intros Hh. unfold Bin.hi_index. rewrite hi_index_from_spec by assumption. reflexivity. Qed.

  Lemma hi_index_overflow h : length hi <= h -> nth h hi_index None = None.
  Proof. intros Hh. apply nth_overflow. unfold Bin.hi_index. rewrite hi_index_from_length. assumption. Qed.

  Lemma matched_first_lo h : matched h = true <-> exists l, first_lo h = Some l.
  Proof.
    unfold Bin.matched, Bin.first_lo. split.
    - intros H. apply existsb_exists in H. destruct H as [l [Hl Hk]].
      destruct (find (key_eq h) lo) as [l'|] eqn:Ef; [exists l'; reflexivity|].
      exfalso. pose proof (find_none _ _ Ef l Hl) as Hn. congruence.
    - intros [l Hf]. apply find_some in Hf. apply existsb_exists. exists l. exact Hf.
  Qed.

  (* the rank of a matched series is a valid output ID and names its output series *)
  Lemma out_series_rank : forall h l, h < length hi -> first_lo (nth h hi []) = Some l ->
    nth_error out_series (rank hi h) = Some (build_output incl return_bool (lblf (nth h hi [])) l).
  Proof.
    unfold Bin.out_series, rank. generalize hi. intros hs0.
    induction hs0 as [|x hs IH]; intros h l Hh Hf; simpl in Hh; [lia|].
    destruct h as [|h]; simpl in *.
    - rewrite Hf. reflexivity.
    - destruct (matched x) eqn:Ex.
      + apply matched_first_lo in Ex. destruct Ex as [l' El]. rewrite El. simpl. apply IH; [lia|assumption].
      + destruct (Bin.first_lo sigf lo x) as [l'|] eqn:El.
        * assert (matched x = true) by (apply matched_first_lo; exists l'; exact El). congruence.
        * simpl. apply IH; [lia|assumption].
  Qed.

  Lemma rank_lt_injective h1 h2 : h1 < h2 -> h2 < length hi -> matched (nth h1 hi []) = true -> rank hi h1 < rank hi h2.
  Proof.
    unfold rank. generalize hi. intros hs0. revert h1 h2.
    induction hs0 as [|x hs IH]; intros h1 h2 H12 Hh2 Hm.
    - simpl in Hh2. lia.
    - destruct h2 as [|h2]; [lia|]. destruct h1 as [|h1]; simpl in *.
      + rewrite Hm. simpl. lia.
      + assert (Hlt : length (filter matched (firstn h1 hs)) < length (filter matched (firstn h2 hs))) by (apply IH; [lia|lia|assumption]).
        destruct (matched x); simpl; lia.
  Qed.

  Lemma rank_injective h1 h2 : h1 < length hi -> h2 < length hi ->
    matched (nth h1 hi []) = true -> matched (nth h2 hi []) = true -> rank hi h1 = rank hi h2 -> h1 = h2.
  Proof.
    intros H1 H2 M1 M2 E. destruct (Nat.lt_trichotomy h1 h2) as [Hlt|[Heq|Hgt]]; [|assumption|].
    - pose proof (rank_lt_injective h1 h2 Hlt H2 M1). lia.
    - pose proof (rank_lt_injective h2 h1 Hgt H1 M2). lia.
  Qed.

  (* a low-cardinality series feeds exactly the outputs of the high-cardinality series with its signature *)
  Lemma lo_index_In l o : l < length lo ->
    (In o (nth l lo_index []) <->
     exists h, h < length hi /\ nth h hi_index None = Some o /\ key_eq (nth h hi []) (nth l lo []) = true).
  Proof.
    intros Hl. unfold Bin.lo_index.
    rewrite (nth_indep _ [] (flat_map (fun ho : labels * option nat =>
                match snd ho with Some o0 => if key_eq (fst ho) [] then [o0] else [] | None => [] end)
                (combine hi hi_index))) by (rewrite map_length; assumption).
    rewrite (map_nth (fun l0 => flat_map (fun ho : labels * option nat =>
                match snd ho with Some o0 => if key_eq (fst ho) l0 then [o0] else [] | None => [] end)
                (combine hi hi_index)) lo [] l).
    rewrite in_flat_map. split.
    - intros [[hl ho] [Hin Ho]]. simpl in Ho. destruct ho as [o'|]; [|destruct Ho].
      destruct (key_eq hl (nth l lo [])) eqn:Ek; [|destruct Ho]. destruct Ho as [->|[]].
      apply In_nth with (d := ([], None)) in Hin. destruct Hin as [h [Hh Hn]].
      rewrite combine_length in Hh. rewrite combine_nth in Hn by (unfold Bin.hi_index; rewrite hi_index_from_length; reflexivity).
      inversion Hn; subst. exists h. split; [lia|]. split; [reflexivity|exact Ek].
    - intros [h [Hh [Hn Hk]]]. exists (nth h hi [], Some o). split.
      + rewrite <- Hn. rewrite <- combine_nth by (unfold Bin.hi_index; rewrite hi_index_from_length; reflexivity).
        apply nth_In. rewrite combine_length. unfold Bin.hi_index. rewrite hi_index_from_length. lia.
      + simpl. rewrite Hk. left. reflexivity.
  Qed.

  Lemma lo_list_from_NoDup l : forall hs next,
    let L := flat_map (fun ho : labels * option nat =>
                         match snd ho with Some o => if key_eq (fst ho) l then [o] else [] | None => [] end)
                      (combine hs (hi_index_from next hs)) in
    NoDup L /\ forall o, In o L -> next <= o.
  Proof.
    induction hs as [|x hs IH]; intros next; simpl; [split; [constructor|intros o []]|].
    destruct (matched x); simpl.
    - destruct (IH (S next)) as [Hnd Hge]. destruct (key_eq x l); simpl.
      + split.
        * constructor; [|exact Hnd]. intros Hin. apply Hge in Hin. lia.
        * intros o [<-|Ho]; [lia|]. apply Hge in Ho. lia.
      + split; [exact Hnd|]. intros o Ho. apply Hge in Ho. lia.
    - destruct (IH next) as [Hnd Hge]. split; assumption.
  Qed.

  Lemma lo_index_NoDup l : NoDup (nth l lo_index []).
  Proof.
    destruct (Nat.lt_ge_cases l (length lo)) as [Hl|Hg].
    - unfold Bin.lo_index.
      rewrite (nth_indep _ [] (flat_map (fun ho : labels * option nat =>
                  match snd ho with Some o0 => if key_eq (fst ho) [] then [o0] else [] | None => [] end)
                  (combine hi hi_index))) by (rewrite map_length; assumption).
      rewrite (map_nth (fun l0 => flat_map (fun ho : labels * option nat =>
                  match snd ho with Some o0 => if key_eq (fst ho) l0 then [o0] else [] | None => [] end)
                  (combine hi hi_index)) lo [] l).
      apply (lo_list_from_NoDup (nth l lo []) hi 0).
    - rewrite nth_overflow; [constructor|]. unfold Bin.lo_index. rewrite map_length. assumption.
  Qed.
End JoinProofs.

(* ---- general list facts ----------------------------------------------------- *)

Lemma NoDup_flat_map {A B} (f : A -> list B) (l : list A) :
  NoDup l -> (forall x, In x l -> NoDup (f x)) ->
  (forall x y b, In x l -> In y l -> In b (f x) -> In b (f y) -> x = y) ->
  NoDup (flat_map f l).
Proof.
  induction l as [|a l IH]; intros Hnd Hin Hdis; simpl; [constructor|].
  inversion Hnd as [|? ? Hna Hnd']; subst.
  assert (IH' : NoDup (flat_map f l)).
  { apply IH; [assumption|intros x Hx; apply Hin; right; assumption|].
    intros x y b Hx Hy; apply Hdis; right; assumption. }
  assert (Ha : NoDup (f a)) by (apply Hin; left; reflexivity).
  revert Ha. generalize (fun b Hb => fun y Hy Hby => Hdis a y b (or_introl eq_refl) (or_intror Hy) Hb Hby).
  generalize (f a). intros fa Hfa Ha. induction fa as [|b fa IHf]; simpl; [assumption|].
  inversion Ha as [|? ? Hnb Ha']; subst. constructor.
  - intros Hb. apply in_app_or in Hb. destruct Hb as [Hb|Hb]; [contradiction|].
    apply in_flat_map in Hb. destruct Hb as [y [Hy Hby]].
    assert (a = y) by (apply (Hfa b (or_introl eq_refl) y Hy Hby)). subst. contradiction.
  - apply IHf; [|assumption]. intros b' Hb' y Hy Hby. apply (Hfa b' (or_intror Hb') y Hy Hby).
Qed.

Lemma NoDup_map_fst_unique {A B} (l : list (A * B)) x y :
  NoDup (map fst l) -> In x l -> In y l -> fst x = fst y -> x = y.
Proof.
  induction l as [|a l IH]; intros Hnd Hx Hy E; [destruct Hx|].
  simpl in Hnd. inversion Hnd as [|? ? Hna Hnd']; subst.
  destruct Hx as [->|Hx], Hy as [->|Hy]; try reflexivity.
  - exfalso. apply Hna. rewrite E. apply in_map. assumption.
  - exfalso. apply Hna. rewrite <- E. apply in_map. assumption.
  - apply IH; assumption.
Qed.

(* ---- the reference step: what a successful evaluation contains --------------- *)

Section RefProofs.
  Variable V : Type.
  Variable op : V -> V -> V * bool.
  Variable b2v : bool -> V.
  Variable sigf : labels -> labels.
  Variable result_metric : labels -> labels -> labels.
  Variable c : card.
  Variable return_bool : bool.

  Notation sig_eq := (sig_eq sigf).
  Notation ref_many := (ref_many V op b2v sigf result_metric c return_bool).

  Definition ref_res (ls rs : labels * V) : V * bool :=
    if is_one_to_many c then op (snd rs) (snd ls) else op (snd ls) (snd rs).

  (* the sample a pair of matching samples contributes, if any *)
  Definition ref_emits (ls rs : labels * V) (x : labels * V) : Prop :=
    (return_bool = true \/ snd (ref_res ls rs) = true) /\
    x = (result_metric (fst ls) (fst rs), if return_bool then b2v (snd (ref_res ls rs)) else fst (ref_res ls rs)).

  Lemma ref_many_In one : forall many seen out,
    ref_many many one seen = Some out ->
    forall x, In x out <->
              exists ls rs, In ls many /\ find (fun rs => sig_eq (fst ls) (fst rs)) one = Some rs /\ ref_emits ls rs x.
  Proof.
    induction many as [|ls many IH]; intros seen out H x; simpl in H.
    - inversion H; subst. split; [intros []|intros [ls [rs [[] _]]]].
    - destruct (find (fun rs => sig_eq (fst ls) (fst rs)) one) as [rs|] eqn:Ef.
      + fold (ref_res ls rs) in H.
        destruct (negb return_bool && negb (snd (ref_res ls rs))) eqn:Eskip.
        * rewrite (IH _ _ H x). split.
          -- intros [ls' [rs' [Hin R]]]. exists ls', rs'. split; [right; assumption|exact R].
          -- intros [ls' [rs' [[<-|Hin] [Hf He]]]].
             ++ exfalso. rewrite Ef in Hf. inversion Hf; subst rs'. destruct He as [[Hb|Hk] _].
                ** rewrite Hb in Eskip. discriminate.
                ** rewrite Hk in Eskip. rewrite andb_false_r in Eskip. discriminate.
             ++ exists ls', rs'. tauto.
        * match type of H with (if ?d then _ else _) = _ => destruct d end; [discriminate|].
          match type of H with option_map _ ?r = _ => destruct r as [out'|] eqn:Er end; [|discriminate].
          simpl in H. inversion H; subst out. simpl. rewrite (IH _ _ Er x). split.
          -- intros [Hx|[ls' [rs' [Hin R]]]].
             ++ exists ls, rs. split; [left; reflexivity|]. split; [exact Ef|].
                split; [|symmetry; exact Hx].
                destruct return_bool; [left; reflexivity|right]. simpl in Eskip.
                destruct (snd (ref_res ls rs)); [reflexivity|discriminate].
             ++ exists ls', rs'. split; [right; assumption|exact R].
          -- intros [ls' [rs' [[<-|Hin] [Hf He]]]].
             ++ left. rewrite Ef in Hf. inversion Hf; subst rs'. destruct He as [_ ->]. reflexivity.
             ++ right. exists ls', rs'. tauto.
      + rewrite (IH _ _ H x). split.
        * intros [ls' [rs' [Hin R]]]. exists ls', rs'. split; [right; assumption|exact R].
        * intros [ls' [rs' [[<-|Hin] [Hf He]]]]; [rewrite Ef in Hf; discriminate|]. exists ls', rs'. tauto.
  Qed.
End RefProofs.

Section StepWF.
  Variable V : Type.
  Variable op : V -> V -> V * bool.
  Variable b2v : bool -> V.
  Variable c : card.
  Variable return_bool : bool.
  Variable hidx : list (option nat).
  Variable lidx : list (list nat).

  Lemma map_fst_flat_map_slots (g : nat -> list (nat * V)) (l : list nat) :
    (forall o x, In x (g o) -> fst x = o) -> (forall o, length (g o) <= 1) ->
    map fst (flat_map g l) = filter (fun o => match g o with [] => false | _ => true end) l.
  Proof.
    intros Hfst Hlen. induction l as [|o l IH]; simpl; [reflexivity|].
    rewrite map_app, IH. specialize (Hlen o). pose proof (Hfst o) as Hf.
    destruct (g o) as [|x [|y r]]; simpl in *; [reflexivity| |lia].
    rewrite (Hf x (or_introl eq_refl)). reflexivity.
  Qed.

  Lemma NoDup_app_intro {A} (a b : list A) :
    NoDup a -> NoDup b -> (forall x, In x a -> In x b -> False) -> NoDup (a ++ b).
  Proof.
    induction a as [|x a IH]; intros Ha Hb Hd; simpl; [assumption|].
    inversion Ha as [|? ? Hn Ha']; subst. constructor.
    - intros Hin. apply in_app_or in Hin. destruct Hin as [Hin|Hin]; [contradiction|].
      apply (Hd x); [left; reflexivity|assumption].
    - apply IH; [assumption|assumption|]. intros y Hy. apply Hd. right. assumption.
  Qed.

  Lemma NoDup_flat_map_filter {A} (f : A -> list nat) (p : A -> nat -> bool) (l : list A) :
    NoDup (flat_map f l) -> NoDup (flat_map (fun x => filter (p x) (f x)) l).
  Proof.
    induction l as [|x l IH]; simpl; intros H; [constructor|].
    destruct (NoDup_app_inv _ _ H) as [N1 [N2 D]].
    apply NoDup_app_intro; [apply NoDup_filter; assumption|apply IH; assumption|].
    intros o Ho1 Ho2. apply filter_In in Ho1. destruct Ho1 as [Ho1 _].
    apply in_flat_map in Ho2. destruct Ho2 as [y [Hy Ho2]]. apply filter_In in Ho2. destruct Ho2 as [Ho2 _].
    apply (D o Ho1). apply in_flat_map. exists y. split; assumption.
  Qed.

  (* C18 for the join: the sample IDs of an output step vector are pairwise distinct *)
  Theorem pure_step_ids_unique (lhs rhs : list (nat * V)) :
    NoDup (all_outs V (rhs_outs c hidx lidx) rhs) ->
    NoDup (map fst (pure_step V op b2v c return_bool hidx lidx lhs rhs)).
  Proof.
    intros Hnd. unfold pure_step.
    set (g := fun (rs : nat * V) (o : nat) =>
                match find (feeds V o (lhs_outs c hidx lidx)) lhs with
                | Some ls => emit V b2v return_bool o (op (snd ls) (snd rs))
                | None => []
                end).
    change (NoDup (map fst (flat_map (fun rs => flat_map (g rs) (rhs_outs c hidx lidx (fst rs))) rhs))).
    assert (E : map fst (flat_map (fun rs => flat_map (g rs) (rhs_outs c hidx lidx (fst rs))) rhs) =
                flat_map (fun rs => filter (fun o => match g rs o with [] => false | _ => true end)
                                           (rhs_outs c hidx lidx (fst rs))) rhs).
    { induction rhs as [|rs rhs' IH]; simpl; [reflexivity|].
      rewrite map_app. f_equal.
      - apply map_fst_flat_map_slots.
        + intros o x Hx. unfold g in Hx. destruct (find (feeds V o (lhs_outs c hidx lidx)) lhs) as [ls|]; [|destruct Hx].
          unfold emit in Hx. destruct return_bool; [destruct Hx as [<-|[]]; reflexivity|].
          destruct (snd (op (snd ls) (snd rs))); [destruct Hx as [<-|[]]; reflexivity|destruct Hx].
        + intros o. unfold g. destruct (find (feeds V o (lhs_outs c hidx lidx)) lhs) as [ls|]; [|simpl; lia].
          unfold emit. destruct return_bool; [simpl; lia|]. destruct (snd (op (snd ls) (snd rs))); simpl; lia.
      - apply IH. unfold all_outs in Hnd. simpl in Hnd. apply NoDup_app_inv in Hnd. tauto. }
    rewrite E. apply (NoDup_flat_map_filter (fun rs : nat * V => rhs_outs c hidx lidx (fst rs))). exact Hnd.
  Qed.
End StepWF.

(* ---- multiplicities: the step as a multiset ------------------------------------ *)

Section RefList.
  Variable V : Type.
  Variable op : V -> V -> V * bool.
  Variable b2v : bool -> V.
  Variable sigf : labels -> labels.
  Variable result_metric : labels -> labels -> labels.
  Variable c : card.
  Variable return_bool : bool.

  Notation sig_eq := (sig_eq sigf).
  Notation ref_many := (ref_many V op b2v sigf result_metric c return_bool).
  Notation ref_res := (ref_res V op c).

  (* what one "many"-side sample contributes *)
  Definition contribution (one : list (labels * V)) (ls : labels * V) : list (labels * V) :=
    match find (fun rs => sig_eq (fst ls) (fst rs)) one with
    | None => []
    | Some rs =>
        if negb return_bool && negb (snd (ref_res ls rs)) then []
        else [(result_metric (fst ls) (fst rs), if return_bool then b2v (snd (ref_res ls rs)) else fst (ref_res ls rs))]
    end.

  (* a successful evaluation is the concatenation of the contributions, in the order of the "many" side *)
  Lemma ref_many_list one : forall many seen out,
    ref_many many one seen = Some out -> out = flat_map (contribution one) many.
  Proof.
    induction many as [|ls many IH]; intros seen out H; simpl in H; [inversion H; reflexivity|].
    simpl. unfold contribution at 1.
    destruct (find (fun rs => sig_eq (fst ls) (fst rs)) one) as [rs|] eqn:Ef; [|apply (IH _ _ H)].
    fold (ref_res ls rs) in H.
    destruct (negb return_bool && negb (snd (ref_res ls rs))) eqn:Eskip; [apply (IH _ _ H)|].
    match type of H with (if ?d then _ else _) = _ => destruct d end; [discriminate|].
    match type of H with option_map _ ?r = _ => destruct r as [out'|] eqn:Er end; [|discriminate].
    simpl in H. inversion H; subst out. simpl. f_equal. apply (IH _ _ Er).
  Qed.
End RefList.

(* ---- the operator against the reference, one step --------------------------- *)

Section OperatorProofs.
  Variable V : Type.
  Variable dflt : V.
  Variable op : V -> V -> V * bool.
  Variable b2v : bool -> V.
  Variable on : bool.
  Variable ml incl : list N.
  Variable c : card.
  Variable return_bool : bool.
  Variable op_drops_name : bool.
  Variable lhs_series rhs_series : list labels.

  (* one-to-one and many-to-one (group_left): the left-hand side is the "many" side *)
  Hypothesis Hc : is_one_to_many c = false.

  Notation sg := (the_sig on ml).
  Notation lb := (the_lbl on ml c return_bool op_drops_name).
  Notation hidx := (op_hidx on ml c lhs_series rhs_series).
  Notation lidx := (op_lidx on ml c lhs_series rhs_series).
  Notation oseries := (op_series on ml incl c return_bool op_drops_name lhs_series rhs_series).
  Notation pure := (pure_step V op b2v c return_bool hidx lidx).
  Notation rmetric := (ref_result_metric op_drops_name return_bool c on ml incl).

  Lemma hi_is_lhs : hi_series c lhs_series rhs_series = lhs_series.
  Proof. unfold hi_series. rewrite Hc. reflexivity. Qed.
  Lemma lo_is_rhs : lo_series c lhs_series rhs_series = rhs_series.
  Proof. unfold lo_series. rewrite Hc. reflexivity. Qed.

  Lemma key_eq_iff a b : key_eq sg a b = true <-> sg a = sg b.
  Proof. unfold key_eq. apply labels_eqb_eq. Qed.

  Lemma hidx_spec h : h < length lhs_series ->
    nth h hidx None = if matched sg rhs_series (nth h lhs_series []) then Some (rank sg rhs_series lhs_series h) else None.
  Proof. intros Hh. unfold op_hidx. rewrite hi_is_lhs, lo_is_rhs. apply hi_index_spec. assumption. Qed.

  Lemma hidx_some h o : nth h hidx None = Some o ->
    h < length lhs_series /\ matched sg rhs_series (nth h lhs_series []) = true /\ o = rank sg rhs_series lhs_series h.
  Proof.
    intros H. destruct (Nat.lt_ge_cases h (length lhs_series)) as [Hl|Hg].
    - rewrite hidx_spec in H by assumption.
      destruct (matched sg rhs_series (nth h lhs_series [])); [|discriminate]. inversion H. auto.
    - unfold op_hidx in H. rewrite hi_is_lhs, lo_is_rhs in H. rewrite hi_index_overflow in H by assumption. discriminate.
  Qed.

  Lemma hidx_inj h1 h2 o : nth h1 hidx None = Some o -> nth h2 hidx None = Some o -> h1 = h2.
  Proof.
    intros H1 H2. apply hidx_some in H1. apply hidx_some in H2.
    destruct H1 as [L1 [M1 E1]], H2 as [L2 [M2 E2]].
    apply (rank_injective sg lhs_series rhs_series); [exact L1|exact L2|exact M1|exact M2|].
    rewrite <- E1, <- E2. reflexivity.
  Qed.

  Lemma lidx_In l o : l < length rhs_series ->
    (In o (nth l lidx []) <->
     exists h, nth h hidx None = Some o /\ sg (nth h lhs_series []) = sg (nth l rhs_series [])).
  Proof.
    intros Hl. unfold op_lidx, op_hidx. rewrite hi_is_lhs, lo_is_rhs.
    rewrite lo_index_In by assumption. split.
    - intros [h [_ [Hn Hk]]]. exists h. split; [assumption|apply key_eq_iff; assumption].
    - intros [h [Hn Hk]]. exists h. split.
      + pose proof Hn as Hn'. unfold op_hidx in *. 
        destruct (Nat.lt_ge_cases h (length lhs_series)) as [Hlt|Hge]; [assumption|].
        rewrite hi_index_overflow in Hn by assumption. discriminate.
      + split; [assumption|apply key_eq_iff; assumption].
  Qed.

  Variable lhs rhs : list (nat * V).
  Hypothesis Hids_l : forall iv, In iv lhs -> fst iv < length lhs_series.
  Hypothesis Hids_r : forall iv, In iv rhs -> fst iv < length rhs_series.
  Hypothesis Hnd_l : NoDup (map fst lhs).
  Hypothesis Hnd_r : NoDup (map fst rhs).

  Definition emitted (ls rs : nat * V) (v : V) : Prop :=
    (return_bool = true \/ snd (op (snd ls) (snd rs)) = true) /\
    v = if return_bool then b2v (snd (op (snd ls) (snd rs))) else fst (op (snd ls) (snd rs)).

  Lemma emit_In o r v : In (o, v) (emit V b2v return_bool o r) <->
    (return_bool = true \/ snd r = true) /\ v = if return_bool then b2v (snd r) else fst r.
  Proof.
    unfold emit. destruct return_bool; simpl.
    - split; [intros [H|[]]; inversion H; auto|intros [_ ->]; left; reflexivity].
    - destruct (snd r); simpl.
      + split; [intros [H|[]]; inversion H; auto|intros [_ ->]; left; reflexivity].
      + split; [intros []|intros [[H|H] _]; discriminate].
  Qed.

  Lemma emit_fst o r x : In x (emit V b2v return_bool o r) -> fst x = o.
  Proof.
    unfold emit. destruct return_bool; [simpl; intros [<-|[]]; reflexivity|].
    destruct (snd r); simpl; [intros [<-|[]]; reflexivity|intros []].
  Qed.

  (* what the engine's step contains: one sample per pair of present samples with equal signatures *)
  Lemma pure_step_In o v :
    In (o, v) (pure lhs rhs) <->
    exists ls rs, In ls lhs /\ In rs rhs /\ nth (fst ls) hidx None = Some o /\
                  sg (nth (fst ls) lhs_series []) = sg (nth (fst rs) rhs_series []) /\ emitted ls rs v.
  Proof.
    unfold pure_step, lhs_outs, rhs_outs. rewrite Hc. split.
    - intros H. apply in_flat_map in H. destruct H as [rs [Hrs H]].
      apply in_flat_map in H. destruct H as [o' [Ho' H]].
      destruct (find (feeds V o' (hi_outs hidx)) lhs) as [ls|] eqn:Ef; [|destruct H].
      assert (o' = o) by (apply emit_fst in H; simpl in H; congruence). subst o'.
      apply find_some in Ef. destruct Ef as [Hls Hfeed].
      unfold feeds, hi_outs in Hfeed. apply existsb_eqb_In in Hfeed.
      destruct (nth (fst ls) hidx None) as [o1|] eqn:En; [|destruct Hfeed].
      destruct Hfeed as [<-|[]].
      unfold lo_outs in Ho'. apply lidx_In in Ho'; [|apply Hids_r; assumption].
      destruct Ho' as [h [Hn Hk]]. assert (h = fst ls) by (eapply hidx_inj; eauto). subst h.
      exists ls, rs. repeat split; auto; apply emit_In in H; destruct H; auto.
    - intros [ls [rs [Hls [Hrs [Hn [Hk [He Hv]]]]]]].
      apply in_flat_map. exists rs. split; [assumption|].
      apply in_flat_map. exists o. split.
      + unfold lo_outs. apply lidx_In; [apply Hids_r; assumption|]. exists (fst ls). auto.
      + assert (Hfeed : feeds V o (hi_outs hidx) ls = true).
        { unfold feeds, hi_outs. rewrite Hn. simpl. rewrite Nat.eqb_refl. reflexivity. }
        destruct (find (feeds V o (hi_outs hidx)) lhs) as [ls'|] eqn:Ef.
        * apply find_some in Ef. destruct Ef as [Hls' Hfeed'].
          unfold feeds, hi_outs in Hfeed'. apply existsb_eqb_In in Hfeed'.
          destruct (nth (fst ls') hidx None) as [o1|] eqn:En'; [|destruct Hfeed'].
          destruct Hfeed' as [<-|[]].
          assert (Hfst : fst ls' = fst ls) by (eapply hidx_inj; eauto).
          assert (ls' = ls) by (apply (NoDup_map_fst_unique lhs); assumption). subst ls'.
          apply emit_In. split; assumption.
        * pose proof (find_none _ _ Ef ls Hls). congruence.
  Qed.

  (* series-level hypothesis: the signatures of the "one" side's series are pairwise distinct *)
  Hypothesis A1 : forall i j, i < length rhs_series -> j < length rhs_series ->
    sg (nth i rhs_series []) = sg (nth j rhs_series []) -> i = j.
  (* the output labels are the reference's result metric (labels_agree below) *)
  Hypothesis HL : forall h l, h < length lhs_series -> l < length rhs_series ->
    build_output incl return_bool (lb (nth h lhs_series [])) (nth l rhs_series []) =
    rmetric (nth h lhs_series []) (nth l rhs_series []).

  Lemma first_lo_unique h l : l < length rhs_series ->
    sg (nth h lhs_series []) = sg (nth l rhs_series []) ->
    first_lo sg rhs_series (nth h lhs_series []) = Some (nth l rhs_series []).
  Proof.
    intros Hl Hs. unfold first_lo. destruct (find (key_eq sg (nth h lhs_series [])) rhs_series) as [x|] eqn:Ef.
    - apply find_some in Ef. destruct Ef as [Hin Hk]. apply key_eq_iff in Hk.
      apply In_nth with (d := []) in Hin. destruct Hin as [l' [Hl' <-]].
      f_equal. f_equal. apply A1; [assumption|assumption|congruence].
    - pose proof (find_none _ _ Ef (nth l rhs_series []) (nth_In _ _ Hl)) as Hn.
      apply key_eq_iff in Hs. congruence.
  Qed.

  Lemma out_label h l o : nth h hidx None = Some o -> l < length rhs_series ->
    sg (nth h lhs_series []) = sg (nth l rhs_series []) ->
    nth o oseries [] = rmetric (nth h lhs_series []) (nth l rhs_series []).
  Proof.
    intros Hn Hl Hs. apply hidx_some in Hn. destruct Hn as [Hh [_ ->]].
    rewrite <- HL by assumption.
    apply nth_error_nth. unfold op_series. rewrite hi_is_lhs, lo_is_rhs.
    apply out_series_rank; [assumption|]. apply first_lo_unique; assumption.
  Qed.

  Lemma find_one (ls rs : nat * V) : In rs rhs ->
    sg (nth (fst ls) lhs_series []) = sg (nth (fst rs) rhs_series []) ->
    find (fun rs' => sig_eq sg (nth (fst ls) lhs_series []) (fst rs')) (labelled V rhs_series rhs) =
    Some (nth (fst rs) rhs_series [], snd rs).
  Proof.
    intros Hrs Hs.
    destruct (find (fun rs' => sig_eq sg (nth (fst ls) lhs_series []) (fst rs')) (labelled V rhs_series rhs)) as [x|] eqn:Ef.
    - apply find_some in Ef. destruct Ef as [Hin Hk]. unfold labelled in Hin. apply in_map_iff in Hin.
      destruct Hin as [r2 [<- Hr2]]. simpl in Hk. apply labels_eqb_eq in Hk.
      assert (Hf : fst r2 = fst rs) by (apply A1; [apply Hids_r; assumption|apply Hids_r; assumption|congruence]).
      assert (r2 = rs) by (apply (NoDup_map_fst_unique rhs); assumption). subst. reflexivity.
    - assert (Hin : In (nth (fst rs) rhs_series [], snd rs) (labelled V rhs_series rhs)).
      { unfold labelled. apply in_map_iff. exists rs. split; [reflexivity|assumption]. }
      pose proof (find_none _ _ Ef _ Hin) as Hn. simpl in Hn. unfold sig_eq in Hn.
      apply labels_eqb_eq in Hs. congruence.
  Qed.

  (* One step of the operator, as the table-free pairing, contains exactly the
     samples of the reference engine's VectorBinop on the same labelled inputs. *)
  Theorem operator_step_matches_reference out :
    ref_operator_step V op b2v on ml incl c return_bool op_drops_name lhs_series rhs_series lhs rhs = Some out ->
    forall m v,
      In (m, v) (relabel V on ml incl c return_bool op_drops_name lhs_series rhs_series (pure lhs rhs)) <-> In (m, v) out.
  Proof.
    intros Href m v. unfold ref_operator_step, ref_step in Href. rewrite Hc in Href.
    destruct (has_dup_sig V sg (labelled V rhs_series rhs)); [discriminate|].
    pose proof (ref_many_In V op b2v sg rmetric c return_bool _ _ _ _ Href (m, v)) as R.
    rewrite R. clear R. unfold relabel. rewrite in_map_iff. split.
    - intros [[o v'] [Heq Hin]]. simpl in Heq. inversion Heq; subst m v'. clear Heq.
      apply pure_step_In in Hin. destruct Hin as [ls [rs [Hls [Hrs [Hn [Hs [He Hv]]]]]]].
      exists (nth (fst ls) lhs_series [], snd ls), (nth (fst rs) rhs_series [], snd rs).
      split; [unfold labelled; apply in_map_iff; exists ls; split; [reflexivity|assumption]|].
      split; [apply find_one; assumption|].
      unfold ref_emits, ref_res. rewrite Hc. simpl. split; [exact He|].
      f_equal; [|exact Hv]. apply (out_label (fst ls) (fst rs)); [assumption|apply Hids_r; assumption|assumption].
    - intros [ls' [rs' [Hin [Hf He]]]]. unfold labelled in Hin. apply in_map_iff in Hin.
      destruct Hin as [ls [<- Hls]]. simpl in Hf.
      apply find_some in Hf. destruct Hf as [Hin' Hk]. unfold labelled in Hin'. apply in_map_iff in Hin'.
      destruct Hin' as [rs [<- Hrs]]. simpl in Hk. apply labels_eqb_eq in Hk.
      assert (Hm : matched sg rhs_series (nth (fst ls) lhs_series []) = true).
      { unfold matched. apply existsb_exists. exists (nth (fst rs) rhs_series []).
        split; [apply nth_In; apply Hids_r; assumption|apply key_eq_iff; assumption]. }
      pose proof (hidx_spec (fst ls) (Hids_l ls Hls)) as Hn. rewrite Hm in Hn.
      unfold ref_emits, ref_res in He. rewrite Hc in He. simpl in He. destruct He as [He Hx].
      exists (rank sg rhs_series lhs_series (fst ls), v). split.
      + simpl. inversion Hx; subst. f_equal.
        apply (out_label (fst ls) (fst rs)); [assumption|apply Hids_r; assumption|assumption].
      + apply pure_step_In. exists ls, rs. repeat split; auto. inversion Hx; reflexivity.
  Qed.

  Lemma NoDup_of_map_fst {A B} (l : list (A * B)) : NoDup (map fst l) -> NoDup l.
  Proof. apply NoDup_map_inv. Qed.

  (* the hypotheses of the table theorem follow from the same facts *)
  Theorem operator_step_ok (t : tbl V) : length t = length oseries ->
    step_ok V c hidx lidx t lhs rhs.
  Proof.
    intros Hlen. unfold step_ok, all_outs, lhs_outs, rhs_outs. rewrite Hc. split; [|split].
    - apply NoDup_flat_map.
      + apply NoDup_of_map_fst. assumption.
      + intros x _. unfold hi_outs. destruct (nth (fst x) hidx None); repeat constructor. intros [].
      + intros x y o Hx Hy Hox Hoy. unfold hi_outs in Hox, Hoy.
        destruct (nth (fst x) hidx None) as [o1|] eqn:E1; [|destruct Hox].
        destruct (nth (fst y) hidx None) as [o2|] eqn:E2; [|destruct Hoy].
        destruct Hox as [<-|[]]. destruct Hoy as [->|[]].
        apply (NoDup_map_fst_unique lhs); [assumption|assumption|assumption|]. eapply hidx_inj; eauto.
    - intros o Ho. apply in_flat_map in Ho. destruct Ho as [x [Hx Ho]]. unfold hi_outs in Ho.
      destruct (nth (fst x) hidx None) as [o1|] eqn:E1; [|destruct Ho]. destruct Ho as [<-|[]].
      rewrite Hlen. apply hidx_some in E1. destruct E1 as [Hh [Hm ->]].
      apply matched_first_lo in Hm. destruct Hm as [l Hf].
      pose proof (out_series_rank sg lb incl return_bool lhs_series rhs_series (fst x) l Hh Hf) as Hr.
      unfold op_series. rewrite hi_is_lhs, lo_is_rhs.
      apply nth_error_Some. rewrite Hr. discriminate.
    - apply NoDup_flat_map.
      + apply NoDup_of_map_fst. assumption.
      + intros x _. unfold lo_outs, op_lidx. apply lo_index_NoDup.
      + intros x y o Hx Hy Hox Hoy. unfold lo_outs in Hox, Hoy.
        apply lidx_In in Hox; [|apply Hids_r; assumption]. apply lidx_In in Hoy; [|apply Hids_r; assumption].
        destruct Hox as [h1 [N1 S1]]. destruct Hoy as [h2 [N2 S2]].
        assert (h1 = h2) by (eapply hidx_inj; eauto). subst h2.
        apply (NoDup_map_fst_unique rhs); [assumption|assumption|assumption|].
        apply A1; [apply Hids_r; assumption|apply Hids_r; assumption|congruence].
  Qed.
  (* ---- multiplicities -------------------------------------------------------- *)

  Lemma find_map {A B} (p : B -> bool) (g : A -> B) (l : list A) :
    find p (map g l) = option_map g (find (fun a => p (g a)) l).
  Proof. induction l as [|a l IH]; simpl; [reflexivity|]. destruct (p (g a)); [reflexivity|exact IH]. Qed.

  (* the reference's evaluation order, on sample IDs: every "many"-side sample with its partner *)
  Definition ref_ids : list (nat * V) :=
    flat_map (fun ls => match nth (fst ls) hidx None with
                        | Some o =>
                            match find (fun rs => labels_eqb (sg (nth (fst ls) lhs_series [])) (sg (nth (fst rs) rhs_series []))) rhs with
                            | Some rs => emit V b2v return_bool o (op (snd ls) (snd rs))
                            | None => []
                            end
                        | None => []
                        end) lhs.

  Lemma ref_ids_In o v :
    In (o, v) ref_ids <->
    exists ls rs, In ls lhs /\ In rs rhs /\ nth (fst ls) hidx None = Some o /\
                  sg (nth (fst ls) lhs_series []) = sg (nth (fst rs) rhs_series []) /\ emitted ls rs v.
  Proof.
    unfold ref_ids. rewrite in_flat_map. split.
    - intros [ls [Hls H]]. destruct (nth (fst ls) hidx None) as [o'|] eqn:En; [|destruct H].
      destruct (find _ rhs) as [rs|] eqn:Ef; [|destruct H].
      apply find_some in Ef. destruct Ef as [Hrs Hk]. apply labels_eqb_eq in Hk.
      assert (o' = o) by (apply emit_fst in H; simpl in H; congruence). subst o'.
      apply emit_In in H. destruct H as [He Hv]. exists ls, rs. repeat split; assumption.
    - intros [ls [rs [Hls [Hrs [Hn [Hk [He Hv]]]]]]]. exists ls. split; [assumption|]. rewrite Hn.
      destruct (find (fun rs0 => labels_eqb (sg (nth (fst ls) lhs_series [])) (sg (nth (fst rs0) rhs_series []))) rhs) as [rs'|] eqn:Ef.
      + apply find_some in Ef. destruct Ef as [Hrs' Hk']. apply labels_eqb_eq in Hk'.
        assert (Hf : fst rs' = fst rs) by (apply A1; [apply Hids_r; assumption|apply Hids_r; assumption|congruence]).
        assert (rs' = rs) by (apply (NoDup_map_fst_unique rhs); assumption). subst rs'.
        apply emit_In. split; assumption.
      + pose proof (find_none _ _ Ef rs Hrs) as Hn'. simpl in Hn'. apply labels_eqb_eq in Hk. congruence.
  Qed.

  Lemma ref_ids_nodup : NoDup (map fst ref_ids).
  Proof.
    unfold ref_ids. assert (Hnd : NoDup lhs) by (apply (NoDup_map_inv fst); assumption).
    revert Hnd Hids_l Hnd_l. generalize lhs. intros l Hnd Hidl Hndl.
    induction l as [|ls l IH]; simpl; [constructor|].
    rewrite map_app. inversion Hnd as [|? ? Hnin Hnd']; subst. simpl in Hndl. inversion Hndl as [|? ? Hnf Hndl']; subst.
    apply NoDup_app_intro.
    - destruct (nth (fst ls) hidx None) as [o|]; [|constructor]. destruct (find _ rhs) as [rs|]; [|constructor].
      unfold emit. destruct return_bool; [repeat constructor; intros []|].
      destruct (snd (op (snd ls) (snd rs))); simpl; repeat constructor. intros [].
    - apply IH; [assumption|intros iv Hiv; apply Hidl; right; assumption|assumption].
    - intros o Ho1 Ho2.
      destruct (nth (fst ls) hidx None) as [o1|] eqn:E1; [|destruct Ho1].
      destruct (find _ rhs) as [rs|]; [|destruct Ho1].
      apply in_map_iff in Ho1. destruct Ho1 as [x [Ex Hx]]. apply emit_fst in Hx. subst o. rewrite Hx in *. clear Hx x.
      apply in_map_iff in Ho2. destruct Ho2 as [y [Ey Hy]]. apply in_flat_map in Hy. destruct Hy as [ls2 [Hls2 Hy]].
      destruct (nth (fst ls2) hidx None) as [o2|] eqn:E2; [|destruct Hy].
      destruct (find _ rhs) as [rs2|]; [|destruct Hy]. apply emit_fst in Hy. rewrite Hy in Ey. subst o2.
      assert (fst ls = fst ls2) by (eapply hidx_inj; eauto).
      apply Hnf. rewrite H. apply in_map. assumption.
  Qed.

  (* relabelled, it is the reference's result - as a list *)
  Lemma relabel_ref_ids out :
    ref_operator_step V op b2v on ml incl c return_bool op_drops_name lhs_series rhs_series lhs rhs = Some out ->
    relabel V on ml incl c return_bool op_drops_name lhs_series rhs_series ref_ids = out.
  Proof.
    intros Href. unfold ref_operator_step, ref_step in Href. rewrite Hc in Href.
    destruct (has_dup_sig V sg (labelled V rhs_series rhs)); [discriminate|].
    rewrite (ref_many_list V op b2v sg rmetric c return_bool _ _ _ _ Href).
    unfold relabel, ref_ids, labelled. rewrite flat_map_concat_map, concat_map, map_map.
    rewrite flat_map_concat_map, map_map. f_equal. apply map_ext_in. intros ls Hls.
    unfold contribution. simpl fst. rewrite find_map. unfold sig_eq. simpl fst.
    destruct (find (fun a => labels_eqb (sg (nth (fst ls) lhs_series [])) (sg (nth (fst a) rhs_series []))) rhs) as [rs|] eqn:Ef.
    - simpl option_map. cbv iota. apply find_some in Ef. destruct Ef as [Hrs Hk]. apply labels_eqb_eq in Hk.
      assert (Hm : matched sg rhs_series (nth (fst ls) lhs_series []) = true).
      { unfold matched. apply existsb_exists. exists (nth (fst rs) rhs_series []).
        split; [apply nth_In; apply Hids_r; assumption|apply key_eq_iff; assumption]. }
      pose proof (hidx_spec (fst ls) (Hids_l ls Hls)) as Hn. rewrite Hm in Hn. rewrite Hn.
      unfold ref_res. rewrite Hc. simpl fst. simpl snd.
      rewrite <- (out_label (fst ls) (fst rs) _ Hn (Hids_r rs Hrs) Hk).
      unfold emit. destruct return_bool; simpl; [reflexivity|].
      destruct (snd (op (snd ls) (snd rs))); reflexivity.
    - simpl option_map. cbv iota. destruct (nth (fst ls) hidx None); reflexivity.
  Qed.

  (* The step as a multiset: the engine's samples are a permutation of the reference's. *)
  Theorem operator_step_permutation out :
    ref_operator_step V op b2v on ml incl c return_bool op_drops_name lhs_series rhs_series lhs rhs = Some out ->
    Permutation (relabel V on ml incl c return_bool op_drops_name lhs_series rhs_series (pure lhs rhs)) out.
  Proof.
    intros Href. rewrite <- (relabel_ref_ids out Href). unfold relabel. apply Permutation_map.
    apply NoDup_Permutation.
    - apply (NoDup_map_inv fst). apply pure_step_ids_unique.
      destruct (operator_step_ok (repeat (dslot V dflt) (length oseries))) as [_ [_ H]]; [apply repeat_length|exact H].
    - apply (NoDup_map_inv fst). apply ref_ids_nodup.
    - intros [o v]. rewrite pure_step_In, ref_ids_In. reflexivity.
  Qed.
End OperatorProofs.


(* ---- output labels = the reference's resultMetric --------------------------- *)

Lemma filter_comm {A} (p q : A -> bool) l : filter p (filter q l) = filter q (filter p l).
Proof.
  induction l as [|x l IH]; simpl; [reflexivity|].
  destruct (p x) eqn:Ep, (q x) eqn:Eq; simpl; rewrite ?Ep, ?Eq, IH; reflexivity.
Qed.

Lemma del_name_idem l : del_name (del_name l) = del_name l.
Proof.
  unfold del_name. induction l as [|x l IH]; simpl; [reflexivity|].
  destruct (negb (fst x =? 0)%N) eqn:E; simpl; rewrite ?E, IH; reflexivity.
Qed.

Lemma del_name_filter p l : del_name (filter p l) = filter p (del_name l).
Proof. unfold del_name. apply filter_comm. Qed.

Lemma filter_without_name ml l :
  filter (fun kv : N * N => negb (mem_n (fst kv) (0%N :: ml))) (del_name l) =
  filter (fun kv => negb (mem_n (fst kv) ml)) (del_name l).
Proof.
  apply filter_ext_in. intros x Hx. unfold del_name in Hx. apply filter_In in Hx. destruct Hx as [_ Hx].
  unfold mem_n. simpl existsb. destruct (fst x =? 0)%N; [discriminate|reflexivity].
Qed.

Lemma filter_without_name' ml l :
  filter (fun kv : N * N => negb ((fst kv =? 0)%N || mem_n (fst kv) ml)) (del_name l) =
  filter (fun kv => negb (mem_n (fst kv) ml)) (del_name l).
Proof.
  apply filter_ext_in. intros x Hx. unfold del_name in Hx. apply filter_In in Hx. destruct Hx as [_ Hx].
  destruct (fst x =? 0)%N; [discriminate|reflexivity].
Qed.

Lemma del_name_app a b : del_name (a ++ b) = del_name a ++ del_name b.
Proof. unfold del_name. apply filter_app. Qed.

Lemma del_name_ldel m n : del_name (ldel m n) = ldel (del_name m) n.
Proof. unfold del_name, ldel. apply filter_comm. Qed.

Lemma del_name_linsert n v l :
  del_name (linsert n v l) = if (n =? 0)%N then del_name l else linsert n v (del_name l).
Proof.
  induction l as [|[k x] r IH].
  - unfold del_name. simpl. destruct (n =? 0)%N; reflexivity.
  - cbn [linsert]. destruct (N.ltb_spec n k) as [Hlt|Hge].
    + unfold del_name. cbn [filter fst].
      destruct (N.eqb_spec n 0) as [->|Hn]; destruct (N.eqb_spec k 0) as [->|Hk]; cbn [negb]; try lia.
      * reflexivity.
      * cbn [linsert]. destruct (N.ltb_spec n k); [reflexivity|lia].
    + unfold del_name in *. cbn [filter fst]. rewrite IH.
      destruct (N.eqb_spec n 0) as [->|Hn]; destruct (N.eqb_spec k 0) as [->|Hk]; cbn [negb]; try reflexivity; try lia.
      cbn [linsert]. destruct (N.ltb_spec n k); [lia|reflexivity].
Qed.

Lemma del_name_include incl rm : forall m m', del_name m = del_name m' ->
  del_name (include_labels incl m rm) = del_name (include_labels incl m' rm).
Proof.
  unfold include_labels. induction incl as [|n incl IH]; intros m m' H; simpl; [exact H|].
  apply IH. destruct (lookup rm n) as [v|].
  - unfold lset. rewrite !del_name_linsert, !del_name_ldel, H. reflexivity.
  - rewrite !del_name_ldel, H. reflexivity.
Qed.

Theorem labels_agree on ml incl c return_bool op_drops_name lm rm :
  (is_one_to_one c = true -> incl = []) ->
  build_output incl return_bool (the_lbl on ml c return_bool op_drops_name lm) rm =
  ref_result_metric op_drops_name return_bool c on ml incl lm rm.
Proof.
  intros Hincl. unfold build_output, the_lbl, side_labels, keep_labels, keep_name, ref_result_metric.
  destruct return_bool.
  - (* bool: the name is dropped at the end *)
    rewrite orb_true_r. simpl negb. cbv iota.
    destruct (is_one_to_one c) eqn:E11; simpl negb.
    + rewrite (Hincl eq_refl). unfold include_labels. simpl fold_left.
      destruct on.
      * rewrite del_name_filter. destruct op_drops_name; rewrite ?del_name_idem; reflexivity.
      * rewrite del_name_filter, ?filter_without_name, ?filter_without_name'. destruct op_drops_name; rewrite ?del_name_idem; reflexivity.
    + destruct incl as [|n incl'].
      * unfold include_labels. simpl. destruct op_drops_name; rewrite ?del_name_idem; reflexivity.
      * apply del_name_include. destruct op_drops_name; rewrite ?del_name_idem; reflexivity.
  - rewrite orb_false_r.
    destruct (is_one_to_one c) eqn:E11; simpl negb.
    + rewrite (Hincl eq_refl). unfold include_labels. simpl fold_left.
      destruct on; destruct op_drops_name; simpl negb; try reflexivity.
      first [apply filter_without_name | apply filter_without_name'].
    + destruct incl as [|n incl']; destruct op_drops_name; reflexivity.
Qed.

(* ---- a whole query: one-to-one and many-to-one (group_left) ------------------ *)

Section QueryProofs.
  Variable V : Type.
  Variable dflt : V.
  Variable op : V -> V -> V * bool.
  Variable b2v : bool -> V.
  Variable on : bool.
  Variable ml incl : list N.
  Variable c : card.
  Variable return_bool : bool.
  Variable op_drops_name : bool.
  Variable lhs_series rhs_series : list labels.

  Notation stepT := (Z * list (nat * V) * list (nat * V))%type.

  (* sample IDs are distinct and name series of the operand *)
  Definition good_step (s : stepT) : Prop :=
    (forall iv, In iv (snd (fst s)) -> fst iv < length lhs_series) /\
    (forall iv, In iv (snd s) -> fst iv < length rhs_series) /\
    NoDup (map fst (snd (fst s))) /\ NoDup (map fst (snd s)).

  Fixpoint increasing (prev : Z) (steps : list stepT) : Prop :=
    match steps with
    | [] => True
    | s :: r => (prev < fst (fst s))%Z /\ increasing (fst (fst s)) r
    end.

  Definition one_side_unique : Prop :=
    forall i j, i < length rhs_series -> j < length rhs_series ->
      the_sig on ml (nth i rhs_series []) = the_sig on ml (nth j rhs_series []) -> i = j.

  Notation hidx := (op_hidx on ml c lhs_series rhs_series).
  Notation lidx := (op_lidx on ml c lhs_series rhs_series).
  Notation oseries := (op_series on ml incl c return_bool op_drops_name lhs_series rhs_series).
  Notation pure := (pure_step V op b2v c return_bool hidx lidx).
  Notation relab := (relabel V on ml incl c return_bool op_drops_name lhs_series rhs_series).

  Lemma steps_ok_of_good : is_one_to_many c = false -> one_side_unique ->
    forall steps prev, increasing prev steps -> Forall good_step steps ->
    steps_ok V c hidx lidx (length oseries) prev steps.
  Proof.
    intros Hc HA. induction steps as [|[[ts lhs] rhs] steps IH]; intros prev Hinc Hgood; simpl; [exact I|].
    simpl in Hinc. destruct Hinc as [Hlt Hinc]. inversion Hgood as [|? ? [G1 [G2 [G3 G4]]] Hgood']; subst. simpl in *.
    destruct (operator_step_ok V on ml incl c return_bool op_drops_name lhs_series rhs_series Hc lhs rhs G2 G3 G4 HA
                (new_table V dflt (length oseries))) as [S1 [S2 S3]].
    { unfold new_table. apply repeat_length. }
    split; [exact Hlt|]. split; [exact S1|]. split.
    - intros o Ho. specialize (S2 o Ho). unfold new_table in S2. rewrite repeat_length in S2. exact S2.
    - split; [exact S3|]. apply IH; assumption.
  Qed.

  (* Every step of the query is the table-free pairing: timestamps tags never
     leak a value from one step into another, for any number of steps. *)
  Theorem run_operator_is_pairing : is_one_to_many c = false -> one_side_unique ->
    forall steps prev, (noT <= prev)%Z -> increasing prev steps -> Forall good_step steps ->
    run_operator V dflt op b2v on ml incl c return_bool op_drops_name lhs_series rhs_series steps =
    inl (map (fun s : stepT => (fst (fst s), relab (pure (snd (fst s)) (snd s)))) steps).
  Proof.
    intros Hc HA steps prev Hp Hinc Hgood. unfold run_operator.
    rewrite (exec_steps_pure V dflt op b2v c return_bool hidx lidx steps _ prev Hp).
    - rewrite map_map. reflexivity.
    - apply new_table_tags. lia.
    - unfold new_table. rewrite repeat_length. apply steps_ok_of_good; assumption.
  Qed.

  (* ... and at every step at which the reference engine succeeds, the samples
     are exactly the reference engine's *)
  Theorem run_operator_matches_reference : is_one_to_many c = false -> one_side_unique ->
    (is_one_to_one c = true -> incl = []) ->
    forall (s : stepT) out, good_step s ->
    ref_operator_step V op b2v on ml incl c return_bool op_drops_name lhs_series rhs_series (snd (fst s)) (snd s) = Some out ->
    forall m v, In (m, v) (relab (pure (snd (fst s)) (snd s))) <-> In (m, v) out.
  Proof.
    intros Hc HA Hincl [[ts lhs] rhs] out [G1 [G2 [G3 G4]]] Href. simpl in *.
    apply (operator_step_matches_reference V op b2v on ml incl c return_bool op_drops_name lhs_series rhs_series Hc
             lhs rhs G1 G2 G3 G4 HA); [|exact Href].
    intros h l _ _. apply labels_agree. exact Hincl.
  Qed.
End QueryProofs.

(* non-vacuity: foo * on (a) group_left (c) bar over three steps; 0 = __name__, 1 = a, 2 = b, 3 = c *)
Example join_example :
  let L := [[(0, 10); (1, 20); (2, 31)]; [(0, 10); (1, 20); (2, 32)]; [(0, 10); (1, 21); (2, 31)]]%N in
  let R := [[(0, 11); (1, 20); (3, 40)]]%N in
  let mul (a b : Z) := ((a * b)%Z, true) in
  let steps := [(100%Z, [(0, 2%Z); (1, 3%Z); (2, 4%Z)], [(0, 10%Z)]); (130%Z, [(1, 5%Z)], [(0, 7%Z)]); (160%Z, [(1, 5%Z)], [])] in
  one_side_unique true [1%N] R /\ Forall (good_step Z L R) steps /\ increasing Z 0%Z steps /\
  run_operator Z 0%Z mul (fun b : bool => if b then 1%Z else 0%Z) true [1%N] [3%N] ManyToOne false true L R steps =
  inl [(100%Z, [([(1, 20); (2, 31); (3, 40)]%N, 20%Z); ([(1, 20); (2, 32); (3, 40)]%N, 30%Z)]);
       (130%Z, [([(1, 20); (2, 32); (3, 40)]%N, 35%Z)]); (160%Z, [])].
Proof.
  cbv zeta. split; [|split; [|split]].
  - intros i j Hi Hj _. simpl in Hi, Hj. lia.
  - repeat (apply Forall_cons || apply Forall_nil); unfold good_step; simpl; repeat split;
      try (intros iv H; intuition (subst; simpl; lia));
      repeat (apply NoDup_cons; [simpl; intuition lia|]); apply NoDup_nil.
  - simpl. lia.
  - vm_compute. reflexivity.
Qed.

(* ---- one-to-many (group_right): the right-hand side is the "many" side ------- *)

Section OperatorProofsOTM.
  Variable V : Type.
  Variable dflt : V.
  Variable op : V -> V -> V * bool.
  Variable b2v : bool -> V.
  Variable on : bool.
  Variable ml incl : list N.
  Variable c : card.
  Variable return_bool : bool.
  Variable op_drops_name : bool.
  Variable lhs_series rhs_series : list labels.

  Hypothesis Hc : is_one_to_many c = true.

  Notation sg := (the_sig on ml).
  Notation lb := (the_lbl on ml c return_bool op_drops_name).
  Notation hidx := (op_hidx on ml c lhs_series rhs_series).
  Notation lidx := (op_lidx on ml c lhs_series rhs_series).
  Notation oseries := (op_series on ml incl c return_bool op_drops_name lhs_series rhs_series).
  Notation pure := (pure_step V op b2v c return_bool hidx lidx).
  Notation rmetric := (ref_result_metric op_drops_name return_bool c on ml incl).

  Lemma hi_is_rhs : hi_series c lhs_series rhs_series = rhs_series.
  Proof. unfold hi_series. rewrite Hc. reflexivity. Qed.
  Lemma lo_is_lhs : lo_series c lhs_series rhs_series = lhs_series.
  Proof. unfold lo_series. rewrite Hc. reflexivity. Qed.

  Lemma hidx_spec' h : h < length rhs_series ->
    nth h hidx None = if matched sg lhs_series (nth h rhs_series []) then Some (rank sg lhs_series rhs_series h) else None.
  Proof. intros Hh. unfold op_hidx. rewrite hi_is_rhs, lo_is_lhs. apply hi_index_spec. assumption. Qed.

  Lemma hidx_some' h o : nth h hidx None = Some o ->
    h < length rhs_series /\ matched sg lhs_series (nth h rhs_series []) = true /\ o = rank sg lhs_series rhs_series h.
  Proof.
    intros H. destruct (Nat.lt_ge_cases h (length rhs_series)) as [Hl|Hg].
    - rewrite hidx_spec' in H by assumption.
      destruct (matched sg lhs_series (nth h rhs_series [])); [|discriminate]. inversion H. auto.
    - unfold op_hidx in H. rewrite hi_is_rhs, lo_is_lhs in H. rewrite hi_index_overflow in H by assumption. discriminate.
  Qed.

  Lemma hidx_inj' h1 h2 o : nth h1 hidx None = Some o -> nth h2 hidx None = Some o -> h1 = h2.
  Proof.
    intros H1 H2. apply hidx_some' in H1. apply hidx_some' in H2.
    destruct H1 as [L1 [M1 E1]], H2 as [L2 [M2 E2]].
    apply (rank_injective sg rhs_series lhs_series); [exact L1|exact L2|exact M1|exact M2|].
    rewrite <- E1, <- E2. reflexivity.
  Qed.

  Lemma lidx_In' l o : l < length lhs_series ->
    (In o (nth l lidx []) <->
     exists h, nth h hidx None = Some o /\ sg (nth h rhs_series []) = sg (nth l lhs_series [])).
  Proof.
    intros Hl. unfold op_lidx, op_hidx. rewrite hi_is_rhs, lo_is_lhs.
    rewrite lo_index_In by assumption. split.
    - intros [h [_ [Hn Hk]]]. exists h. split; [assumption|apply labels_eqb_eq; assumption].
    - intros [h [Hn Hk]]. exists h. split.
      + destruct (Nat.lt_ge_cases h (length rhs_series)) as [Hlt|Hge]; [assumption|].
        rewrite hi_index_overflow in Hn by assumption. discriminate.
      + split; [assumption|apply labels_eqb_eq; assumption].
  Qed.

  Variable lhs rhs : list (nat * V).
  Hypothesis Hids_l : forall iv, In iv lhs -> fst iv < length lhs_series.
  Hypothesis Hids_r : forall iv, In iv rhs -> fst iv < length rhs_series.
  Hypothesis Hnd_l : NoDup (map fst lhs).
  Hypothesis Hnd_r : NoDup (map fst rhs).
  (* the "one" side is the left-hand side *)
  Hypothesis A1 : forall i j, i < length lhs_series -> j < length lhs_series ->
    sg (nth i lhs_series []) = sg (nth j lhs_series []) -> i = j.

  Notation emitted := (emitted V op b2v return_bool).

  Lemma pure_step_In' o v :
    In (o, v) (pure lhs rhs) <->
    exists ls rs, In ls lhs /\ In rs rhs /\ nth (fst rs) hidx None = Some o /\
                  sg (nth (fst rs) rhs_series []) = sg (nth (fst ls) lhs_series []) /\ emitted ls rs v.
  Proof.
    unfold pure_step, lhs_outs, rhs_outs. rewrite Hc. split.
    - intros H. apply in_flat_map in H. destruct H as [rs [Hrs H]].
      apply in_flat_map in H. destruct H as [o' [Ho' H]].
      destruct (find (feeds V o' (lo_outs lidx)) lhs) as [ls|] eqn:Ef; [|destruct H].
      assert (o' = o) by (apply (emit_fst V b2v return_bool) in H; simpl in H; congruence). subst o'.
      apply find_some in Ef. destruct Ef as [Hls Hfeed].
      unfold feeds, lo_outs in Hfeed. apply existsb_eqb_In in Hfeed.
      apply lidx_In' in Hfeed; [|apply Hids_l; assumption]. destruct Hfeed as [h [Hn Hk]].
      unfold hi_outs in Ho'. destruct (nth (fst rs) hidx None) as [o1|] eqn:En; [|destruct Ho'].
      destruct Ho' as [<-|[]]. assert (h = fst rs) by (eapply hidx_inj'; eauto). subst h.
      exists ls, rs. apply (emit_In V b2v return_bool) in H. destruct H as [He Hv].
      repeat split; auto.
    - intros [ls [rs [Hls [Hrs [Hn [Hk [He Hv]]]]]]].
      apply in_flat_map. exists rs. split; [assumption|].
      apply in_flat_map. exists o. split.
      + unfold hi_outs. rewrite Hn. left. reflexivity.
      + assert (Hfeed : feeds V o (lo_outs lidx) ls = true).
        { unfold feeds, lo_outs. apply existsb_eqb_In. apply lidx_In'; [apply Hids_l; assumption|].
          exists (fst rs). auto. }
        destruct (find (feeds V o (lo_outs lidx)) lhs) as [ls'|] eqn:Ef.
        * apply find_some in Ef. destruct Ef as [Hls' Hfeed'].
          unfold feeds, lo_outs in Hfeed'. apply existsb_eqb_In in Hfeed'.
          apply lidx_In' in Hfeed'; [|apply Hids_l; assumption]. destruct Hfeed' as [h [Hn' Hk']].
          assert (h = fst rs) by (eapply hidx_inj'; eauto). subst h.
          assert (Hfst : fst ls' = fst ls) by (apply A1; [apply Hids_l; assumption|apply Hids_l; assumption|congruence]).
          assert (ls' = ls) by (apply (NoDup_map_fst_unique lhs); assumption). subst ls'.
          apply (emit_In V b2v return_bool). split; assumption.
        * pose proof (find_none _ _ Ef ls Hls). congruence.
  Qed.

  Hypothesis HL : forall h l, h < length rhs_series -> l < length lhs_series ->
    build_output incl return_bool (lb (nth h rhs_series [])) (nth l lhs_series []) =
    rmetric (nth h rhs_series []) (nth l lhs_series []).

  Lemma first_lo_unique' h l : l < length lhs_series ->
    sg (nth h rhs_series []) = sg (nth l lhs_series []) ->
    first_lo sg lhs_series (nth h rhs_series []) = Some (nth l lhs_series []).
  Proof.
    intros Hl Hs. unfold first_lo. destruct (find (key_eq sg (nth h rhs_series [])) lhs_series) as [x|] eqn:Ef.
    - apply find_some in Ef. destruct Ef as [Hin Hk]. apply labels_eqb_eq in Hk.
      apply In_nth with (d := []) in Hin. destruct Hin as [l' [Hl' <-]].
      f_equal. f_equal. apply A1; [assumption|assumption|congruence].
    - pose proof (find_none _ _ Ef (nth l lhs_series []) (nth_In _ _ Hl)) as Hn.
      unfold key_eq in Hn. apply labels_eqb_eq in Hs. congruence.
  Qed.

  Lemma out_label' h l o : nth h hidx None = Some o -> l < length lhs_series ->
    sg (nth h rhs_series []) = sg (nth l lhs_series []) ->
    nth o oseries [] = rmetric (nth h rhs_series []) (nth l lhs_series []).
  Proof.
    intros Hn Hl Hs. apply hidx_some' in Hn. destruct Hn as [Hh [_ ->]].
    rewrite <- HL by assumption.
    apply nth_error_nth. unfold op_series. rewrite hi_is_rhs, lo_is_lhs.
    apply out_series_rank; [assumption|]. apply first_lo_unique'; assumption.
  Qed.

  Lemma find_one' (ls rs : nat * V) : In ls lhs ->
    sg (nth (fst rs) rhs_series []) = sg (nth (fst ls) lhs_series []) ->
    find (fun ls' => sig_eq sg (nth (fst rs) rhs_series []) (fst ls')) (labelled V lhs_series lhs) =
    Some (nth (fst ls) lhs_series [], snd ls).
  Proof.
    intros Hls Hs.
    destruct (find (fun ls' => sig_eq sg (nth (fst rs) rhs_series []) (fst ls')) (labelled V lhs_series lhs)) as [x|] eqn:Ef.
    - apply find_some in Ef. destruct Ef as [Hin Hk]. unfold labelled in Hin. apply in_map_iff in Hin.
      destruct Hin as [l2 [<- Hl2]]. simpl in Hk. apply labels_eqb_eq in Hk.
      assert (Hf : fst l2 = fst ls) by (apply A1; [apply Hids_l; assumption|apply Hids_l; assumption|congruence]).
      assert (l2 = ls) by (apply (NoDup_map_fst_unique lhs); assumption). subst. reflexivity.
    - assert (Hin : In (nth (fst ls) lhs_series [], snd ls) (labelled V lhs_series lhs)).
      { unfold labelled. apply in_map_iff. exists ls. split; [reflexivity|assumption]. }
      pose proof (find_none _ _ Ef _ Hin) as Hn. simpl in Hn. unfold sig_eq in Hn.
      apply labels_eqb_eq in Hs. congruence.
  Qed.

  Theorem operator_step_matches_reference_otm out :
    ref_operator_step V op b2v on ml incl c return_bool op_drops_name lhs_series rhs_series lhs rhs = Some out ->
    forall m v,
      In (m, v) (relabel V on ml incl c return_bool op_drops_name lhs_series rhs_series (pure lhs rhs)) <-> In (m, v) out.
  Proof.
    intros Href m v. unfold ref_operator_step, ref_step in Href. rewrite Hc in Href.
    destruct (has_dup_sig V sg (labelled V lhs_series lhs)); [discriminate|].
    pose proof (ref_many_In V op b2v sg rmetric c return_bool _ _ _ _ Href (m, v)) as R.
    rewrite R. clear R. unfold relabel. rewrite in_map_iff. split.
    - intros [[o v'] [Heq Hin]]. simpl in Heq. inversion Heq; subst m v'. clear Heq.
      apply pure_step_In' in Hin. destruct Hin as [ls [rs [Hls [Hrs [Hn [Hs [He Hv]]]]]]].
      exists (nth (fst rs) rhs_series [], snd rs), (nth (fst ls) lhs_series [], snd ls).
      split; [unfold labelled; apply in_map_iff; exists rs; split; [reflexivity|assumption]|].
      split; [apply find_one'; assumption|].
      unfold ref_emits, ref_res. rewrite Hc. simpl. split; [exact He|].
      f_equal; [|exact Hv]. apply (out_label' (fst rs) (fst ls)); [assumption|apply Hids_l; assumption|assumption].
    - intros [rs' [ls' [Hin [Hf He]]]]. unfold labelled in Hin. apply in_map_iff in Hin.
      destruct Hin as [rs [<- Hrs]]. simpl in Hf.
      apply find_some in Hf. destruct Hf as [Hin' Hk]. unfold labelled in Hin'. apply in_map_iff in Hin'.
      destruct Hin' as [ls [<- Hls]]. simpl in Hk. apply labels_eqb_eq in Hk.
      assert (Hm : matched sg lhs_series (nth (fst rs) rhs_series []) = true).
      { unfold matched. apply existsb_exists. exists (nth (fst ls) lhs_series []).
        split; [apply nth_In; apply Hids_l; assumption|apply labels_eqb_eq; assumption]. }
      pose proof (hidx_spec' (fst rs) (Hids_r rs Hrs)) as Hn. rewrite Hm in Hn.
      unfold ref_emits, ref_res in He. rewrite Hc in He. simpl in He. destruct He as [He Hx].
      exists (rank sg lhs_series rhs_series (fst rs), v). split.
      + simpl. inversion Hx; subst. f_equal.
        apply (out_label' (fst rs) (fst ls)); [assumption|apply Hids_l; assumption|assumption].
      + apply pure_step_In'. exists ls, rs. repeat split; auto. inversion Hx; reflexivity.
  Qed.

  Theorem operator_step_ok_otm (t : tbl V) : length t = length oseries ->
    step_ok V c hidx lidx t lhs rhs.
  Proof.
    intros Hlen. unfold step_ok, all_outs, lhs_outs, rhs_outs. rewrite Hc.
    assert (Hrange : forall l o, l < length lhs_series -> In o (nth l lidx []) -> o < length oseries).
    { intros l o Hl Ho. apply lidx_In' in Ho; [|assumption]. destruct Ho as [h [E1 _]].
      apply hidx_some' in E1. destruct E1 as [Hh [Hm ->]].
      apply matched_first_lo in Hm. destruct Hm as [l' Hf].
      pose proof (out_series_rank sg lb incl return_bool rhs_series lhs_series h l' Hh Hf) as Hr.
      unfold op_series. rewrite hi_is_rhs, lo_is_lhs. apply nth_error_Some. rewrite Hr. discriminate. }
    split; [|split].
    - apply NoDup_flat_map.
      + apply NoDup_map_inv with (f := fst). assumption.
      + intros x _. unfold lo_outs, op_lidx. apply lo_index_NoDup.
      + intros x y o Hx Hy Hox Hoy. unfold lo_outs in Hox, Hoy.
        apply lidx_In' in Hox; [|apply Hids_l; assumption]. apply lidx_In' in Hoy; [|apply Hids_l; assumption].
        destruct Hox as [h1 [N1 S1]]. destruct Hoy as [h2 [N2 S2]].
        assert (h1 = h2) by (eapply hidx_inj'; eauto). subst h2.
        apply (NoDup_map_fst_unique lhs); [assumption|assumption|assumption|].
        apply A1; [apply Hids_l; assumption|apply Hids_l; assumption|congruence].
    - intros o Ho. apply in_flat_map in Ho. destruct Ho as [x [Hx Ho]]. rewrite Hlen.
      apply (Hrange (fst x)); [apply Hids_l; assumption|exact Ho].
    - apply NoDup_flat_map.
      + apply NoDup_map_inv with (f := fst). assumption.
      + intros x _. unfold hi_outs. destruct (nth (fst x) hidx None); repeat constructor. intros [].
      + intros x y o Hx Hy Hox Hoy. unfold hi_outs in Hox, Hoy.
        destruct (nth (fst x) hidx None) as [o1|] eqn:E1; [|destruct Hox].
        destruct (nth (fst y) hidx None) as [o2|] eqn:E2; [|destruct Hoy].
        destruct Hox as [<-|[]]. destruct Hoy as [->|[]].
        apply (NoDup_map_fst_unique rhs); [assumption|assumption|assumption|]. eapply hidx_inj'; eauto.
  Qed.
  (* ---- multiplicities -------------------------------------------------------- *)

  Definition ref_ids' : list (nat * V) :=
    flat_map (fun rs => match nth (fst rs) hidx None with
                        | Some o =>
                            match find (fun ls => labels_eqb (sg (nth (fst rs) rhs_series [])) (sg (nth (fst ls) lhs_series []))) lhs with
                            | Some ls => emit V b2v return_bool o (op (snd ls) (snd rs))
                            | None => []
                            end
                        | None => []
                        end) rhs.

  Lemma ref_ids_In' o v :
    In (o, v) ref_ids' <->
    exists ls rs, In ls lhs /\ In rs rhs /\ nth (fst rs) hidx None = Some o /\
                  sg (nth (fst rs) rhs_series []) = sg (nth (fst ls) lhs_series []) /\ emitted ls rs v.
  Proof.
    unfold ref_ids'. rewrite in_flat_map. split.
    - intros [rs [Hrs H]]. destruct (nth (fst rs) hidx None) as [o'|] eqn:En; [|destruct H].
      destruct (find _ lhs) as [ls|] eqn:Ef; [|destruct H].
      apply find_some in Ef. destruct Ef as [Hls Hk]. apply labels_eqb_eq in Hk.
      assert (o' = o) by (apply (emit_fst V b2v return_bool) in H; simpl in H; congruence). subst o'.
      apply (emit_In V b2v return_bool) in H. destruct H as [He Hv]. exists ls, rs. repeat split; assumption.
    - intros [ls [rs [Hls [Hrs [Hn [Hk [He Hv]]]]]]]. exists rs. split; [assumption|]. rewrite Hn.
      destruct (find (fun ls0 => labels_eqb (sg (nth (fst rs) rhs_series [])) (sg (nth (fst ls0) lhs_series []))) lhs) as [ls'|] eqn:Ef.
      + apply find_some in Ef. destruct Ef as [Hls' Hk']. apply labels_eqb_eq in Hk'.
        assert (Hf : fst ls' = fst ls) by (apply A1; [apply Hids_l; assumption|apply Hids_l; assumption|congruence]).
        assert (ls' = ls) by (apply (NoDup_map_fst_unique lhs); assumption). subst ls'.
        apply (emit_In V b2v return_bool). split; assumption.
      + pose proof (find_none _ _ Ef ls Hls) as Hn'. simpl in Hn'. apply labels_eqb_eq in Hk. congruence.
  Qed.

  Lemma ref_ids_nodup' : NoDup (map fst ref_ids').
  Proof.
    unfold ref_ids'. assert (Hnd : NoDup rhs) by (apply (NoDup_map_inv fst); assumption).
    revert Hnd Hids_r Hnd_r. generalize rhs. intros l Hnd Hidl Hndl.
    induction l as [|rs l IH]; simpl; [constructor|].
    rewrite map_app. inversion Hnd as [|? ? Hnin Hnd']; subst. simpl in Hndl. inversion Hndl as [|? ? Hnf Hndl']; subst.
    apply NoDup_app_intro.
    - destruct (nth (fst rs) hidx None) as [o|]; [|constructor]. destruct (find _ lhs) as [ls|]; [|constructor].
      unfold emit. destruct return_bool; [repeat constructor; intros []|].
      destruct (snd (op (snd ls) (snd rs))); simpl; repeat constructor. intros [].
    - apply IH; [assumption|intros iv Hiv; apply Hidl; right; assumption|assumption].
    - intros o Ho1 Ho2.
      destruct (nth (fst rs) hidx None) as [o1|] eqn:E1; [|destruct Ho1].
      destruct (find _ lhs) as [ls|]; [|destruct Ho1].
      apply in_map_iff in Ho1. destruct Ho1 as [x [Ex Hx]]. apply (emit_fst V b2v return_bool) in Hx. subst o. rewrite Hx in *. clear Hx x.
      apply in_map_iff in Ho2. destruct Ho2 as [y [Ey Hy]]. apply in_flat_map in Hy. destruct Hy as [rs2 [Hrs2 Hy]].
      destruct (nth (fst rs2) hidx None) as [o2|] eqn:E2; [|destruct Hy].
      destruct (find _ lhs) as [ls2|]; [|destruct Hy]. apply (emit_fst V b2v return_bool) in Hy. rewrite Hy in Ey. subst o2.
      assert (fst rs = fst rs2) by (eapply hidx_inj'; eauto).
      apply Hnf. rewrite H. apply in_map. assumption.
  Qed.

  Lemma relabel_ref_ids' out :
    ref_operator_step V op b2v on ml incl c return_bool op_drops_name lhs_series rhs_series lhs rhs = Some out ->
    relabel V on ml incl c return_bool op_drops_name lhs_series rhs_series ref_ids' = out.
  Proof.
    intros Href. unfold ref_operator_step, ref_step in Href. rewrite Hc in Href.
    destruct (has_dup_sig V sg (labelled V lhs_series lhs)); [discriminate|].
    rewrite (ref_many_list V op b2v sg rmetric c return_bool _ _ _ _ Href).
    unfold relabel, ref_ids', labelled. rewrite flat_map_concat_map, concat_map, map_map.
    rewrite flat_map_concat_map, map_map. f_equal. apply map_ext_in. intros rs Hrs.
    unfold contribution. simpl fst. rewrite find_map. unfold sig_eq. simpl fst.
    destruct (find (fun a => labels_eqb (sg (nth (fst rs) rhs_series [])) (sg (nth (fst a) lhs_series []))) lhs) as [ls|] eqn:Ef.
    - simpl option_map. cbv iota. apply find_some in Ef. destruct Ef as [Hls Hk]. apply labels_eqb_eq in Hk.
      assert (Hm : matched sg lhs_series (nth (fst rs) rhs_series []) = true).
      { unfold matched. apply existsb_exists. exists (nth (fst ls) lhs_series []).
        split; [apply nth_In; apply Hids_l; assumption|apply labels_eqb_eq; assumption]. }
      pose proof (hidx_spec' (fst rs) (Hids_r rs Hrs)) as Hn. rewrite Hm in Hn. rewrite Hn.
      unfold ref_res. rewrite Hc. simpl fst. simpl snd.
      rewrite <- (out_label' (fst rs) (fst ls) _ Hn (Hids_l ls Hls) Hk).
      unfold emit. destruct return_bool; simpl; [reflexivity|].
      destruct (snd (op (snd ls) (snd rs))); reflexivity.
    - simpl option_map. cbv iota. destruct (nth (fst rs) hidx None); reflexivity.
  Qed.

  Theorem operator_step_permutation_otm out :
    ref_operator_step V op b2v on ml incl c return_bool op_drops_name lhs_series rhs_series lhs rhs = Some out ->
    Permutation (relabel V on ml incl c return_bool op_drops_name lhs_series rhs_series (pure lhs rhs)) out.
  Proof.
    intros Href. rewrite <- (relabel_ref_ids' out Href). unfold relabel. apply Permutation_map.
    apply NoDup_Permutation.
    - apply (NoDup_map_inv fst). apply pure_step_ids_unique.
      destruct (operator_step_ok_otm (repeat (dslot V dflt) (length oseries))) as [_ [_ H]]; [apply repeat_length|exact H].
    - apply (NoDup_map_inv fst). apply ref_ids_nodup'.
    - intros [o v]. rewrite pure_step_In', ref_ids_In'. reflexivity.
  Qed.
End OperatorProofsOTM.


Section QueryProofsOTM.
  Variable V : Type.
  Variable dflt : V.
  Variable op : V -> V -> V * bool.
  Variable b2v : bool -> V.
  Variable on : bool.
  Variable ml incl : list N.
  Variable c : card.
  Variable return_bool : bool.
  Variable op_drops_name : bool.
  Variable lhs_series rhs_series : list labels.

  Notation stepT := (Z * list (nat * V) * list (nat * V))%type.
  Notation hidx := (op_hidx on ml c lhs_series rhs_series).
  Notation lidx := (op_lidx on ml c lhs_series rhs_series).
  Notation oseries := (op_series on ml incl c return_bool op_drops_name lhs_series rhs_series).
  Notation pure := (pure_step V op b2v c return_bool hidx lidx).
  Notation relab := (relabel V on ml incl c return_bool op_drops_name lhs_series rhs_series).
  Notation good := (good_step V lhs_series rhs_series).

  Lemma steps_ok_of_good_otm : is_one_to_many c = true -> one_side_unique on ml lhs_series ->
    forall steps prev, increasing V prev steps -> Forall good steps ->
    steps_ok V c hidx lidx (length oseries) prev steps.
  Proof.
    intros Hc HA. induction steps as [|[[ts lhs] rhs] steps IH]; intros prev Hinc Hgood; simpl; [exact I|].
    simpl in Hinc. destruct Hinc as [Hlt Hinc]. inversion Hgood as [|? ? [G1 [G2 [G3 G4]]] Hgood']; subst. simpl in *.
    destruct (operator_step_ok_otm V on ml incl c return_bool op_drops_name lhs_series rhs_series Hc lhs rhs G1 G3 G4 HA
                (new_table V dflt (length oseries))) as [S1 [S2 S3]].
    { unfold new_table. apply repeat_length. }
    split; [exact Hlt|]. split; [exact S1|]. split.
    - intros o Ho. specialize (S2 o Ho). unfold new_table in S2. rewrite repeat_length in S2. exact S2.
    - split; [exact S3|]. apply IH; assumption.
  Qed.

  Theorem run_operator_is_pairing_otm : is_one_to_many c = true -> one_side_unique on ml lhs_series ->
    forall steps prev, (noT <= prev)%Z -> increasing V prev steps -> Forall good steps ->
    run_operator V dflt op b2v on ml incl c return_bool op_drops_name lhs_series rhs_series steps =
    inl (map (fun s : stepT => (fst (fst s), relab (pure (snd (fst s)) (snd s)))) steps).
  Proof.
    intros Hc HA steps prev Hp Hinc Hgood. unfold run_operator.
    rewrite (exec_steps_pure V dflt op b2v c return_bool hidx lidx steps _ prev Hp).
    - rewrite map_map. reflexivity.
    - apply new_table_tags. lia.
    - unfold new_table. rewrite repeat_length. apply steps_ok_of_good_otm; assumption.
  Qed.

  Theorem run_operator_matches_reference_otm : is_one_to_many c = true -> one_side_unique on ml lhs_series ->
    forall (s : stepT) out, good s ->
    ref_operator_step V op b2v on ml incl c return_bool op_drops_name lhs_series rhs_series (snd (fst s)) (snd s) = Some out ->
    forall m v, In (m, v) (relab (pure (snd (fst s)) (snd s))) <-> In (m, v) out.
  Proof.
    intros Hc HA [[ts lhs] rhs] out [G1 [G2 [G3 G4]]] Href. simpl in *.
    apply (operator_step_matches_reference_otm V op b2v on ml incl c return_bool op_drops_name lhs_series rhs_series Hc
             lhs rhs G1 G2 G3 HA); [|exact Href].
    intros h l _ _. apply labels_agree. intros H11. destruct c; discriminate.
  Qed.
End QueryProofsOTM.

(* ---- consequences for C07, C11, C18 ------------------------------------------ *)

Section JoinCorollaries.
  Variable V : Type.
  Variable dflt : V.
  Variable op : V -> V -> V * bool.
  Variable b2v : bool -> V.
  Variable on : bool.
  Variable ml incl : list N.
  Variable c : card.
  Variable return_bool : bool.
  Variable op_drops_name : bool.
  Variable lhs_series rhs_series : list labels.

  Notation stepT := (Z * list (nat * V) * list (nat * V))%type.
  Notation run := (run_operator V dflt op b2v on ml incl c return_bool op_drops_name lhs_series rhs_series).
  Notation good := (good_step V lhs_series rhs_series).

  Definition one_side_series : list labels := if is_one_to_many c then lhs_series else rhs_series.

  Lemma run_is_pairing_any : one_side_unique on ml one_side_series ->
    forall steps prev, (noT <= prev)%Z -> increasing V prev steps -> Forall good steps ->
    run steps = inl (map (fun s : stepT => (fst (fst s),
                          relabel V on ml incl c return_bool op_drops_name lhs_series rhs_series
                            (pure_step V op b2v c return_bool (op_hidx on ml c lhs_series rhs_series)
                                       (op_lidx on ml c lhs_series rhs_series) (snd (fst s)) (snd s)))) steps).
  Proof.
    unfold one_side_series. destruct (is_one_to_many c) eqn:Hc; intros HA steps prev Hp Hi Hg.
    - apply (run_operator_is_pairing_otm V dflt op b2v on ml incl c return_bool op_drops_name lhs_series rhs_series Hc HA steps prev); assumption.
    - apply (run_operator_is_pairing V dflt op b2v on ml incl c return_bool op_drops_name lhs_series rhs_series Hc HA steps prev); assumption.
  Qed.

  Lemma increasing_gt : forall steps prev s, increasing V prev steps -> In s steps -> (prev < fst (fst s))%Z.
  Proof.
    induction steps as [|x steps IH]; intros prev s Hi Hin; [destruct Hin|].
    simpl in Hi. destruct Hi as [Hlt Hi]. destruct Hin as [<-|Hin]; [assumption|].
    specialize (IH _ _ Hi Hin). lia.
  Qed.

  (* C07 for the join: what a range query computes at a step is what the
     one-step (instant) query at that timestamp computes, whatever came before
     in the reused table *)
  Theorem join_range_is_instants : one_side_unique on ml one_side_series ->
    forall steps prev, (noT <= prev)%Z -> increasing V prev steps -> Forall good steps ->
    forall s, In s steps ->
    exists out outs, run [s] = inl [(fst (fst s), out)] /\ run steps = inl outs /\ In (fst (fst s), out) outs.
  Proof.
    intros HA steps prev Hp Hi Hg s Hs.
    pose proof (increasing_gt steps prev s Hi Hs) as Hgt.
    rewrite Forall_forall in Hg.
    rewrite (run_is_pairing_any HA steps prev Hp Hi) by (apply Forall_forall; assumption).
    rewrite (run_is_pairing_any HA [s] prev Hp) by (simpl; auto).
    eexists. eexists. split; [reflexivity|]. split; [reflexivity|].
    apply (in_map (fun s0 : stepT => (fst (fst s0), _)) steps s Hs).
  Qed.
  (* the same at the level of sample IDs (what the operator hands to its consumer) *)
  Lemma exec_is_pairing_any : one_side_unique on ml one_side_series ->
    forall steps prev, (noT <= prev)%Z -> increasing V prev steps -> Forall good steps ->
    exec_steps V dflt op b2v c return_bool (op_hidx on ml c lhs_series rhs_series) (op_lidx on ml c lhs_series rhs_series)
               steps (new_table V dflt (length (op_series on ml incl c return_bool op_drops_name lhs_series rhs_series))) =
    inl (map (fun s : stepT => (fst (fst s),
                                pure_step V op b2v c return_bool (op_hidx on ml c lhs_series rhs_series)
                                          (op_lidx on ml c lhs_series rhs_series) (snd (fst s)) (snd s))) steps).
  Proof.
    unfold one_side_series. intros HA steps prev Hp Hi Hg.
    apply (exec_steps_pure V dflt op b2v c return_bool _ _ steps _ prev Hp).
    - apply new_table_tags. lia.
    - unfold new_table. rewrite repeat_length. destruct (is_one_to_many c) eqn:Hc.
      + apply (steps_ok_of_good_otm V dflt on ml incl c return_bool op_drops_name lhs_series rhs_series Hc HA); assumption.
      + apply (steps_ok_of_good V dflt on ml incl c return_bool op_drops_name lhs_series rhs_series Hc HA); assumption.
  Qed.

  (* every emitted sample ID names an output series *)
  Lemma pure_step_ids_in_range (t : tbl V) lhs rhs :
    step_ok V c (op_hidx on ml c lhs_series rhs_series) (op_lidx on ml c lhs_series rhs_series) t lhs rhs ->
    forall ov, In ov (pure_step V op b2v c return_bool (op_hidx on ml c lhs_series rhs_series)
                                (op_lidx on ml c lhs_series rhs_series) lhs rhs) -> fst ov < length t.
  Proof.
    intros [_ [Hr _]] ov Hin. unfold pure_step in Hin. apply in_flat_map in Hin. destruct Hin as [rs [_ Hin]].
    apply in_flat_map in Hin. destruct Hin as [o [_ Hin]].
    destruct (find (feeds V o (lhs_outs c (op_hidx on ml c lhs_series rhs_series) (op_lidx on ml c lhs_series rhs_series))) lhs) as [ls|] eqn:Ef; [|destruct Hin].
    apply find_some in Ef. destruct Ef as [Hls Hf]. unfold feeds in Hf. apply existsb_eqb_In in Hf.
    assert (fst ov = o).
    { unfold emit in Hin. destruct return_bool; [destruct Hin as [<-|[]]; reflexivity|].
      destruct (snd (op (snd ls) (snd rs))); [destruct Hin as [<-|[]]; reflexivity|destruct Hin]. }
    subst o. apply Hr. unfold all_outs. apply in_flat_map. exists ls. split; assumption.
  Qed.

  Lemma step_ok_any : one_side_unique on ml one_side_series -> forall s, good s ->
    step_ok V c (op_hidx on ml c lhs_series rhs_series) (op_lidx on ml c lhs_series rhs_series)
            (new_table V dflt (length (op_series on ml incl c return_bool op_drops_name lhs_series rhs_series)))
            (snd (fst s)) (snd s).
  Proof.
    unfold one_side_series. intros HA [[ts lhs] rhs] [G1 [G2 [G3 G4]]]. simpl in *.
    destruct (is_one_to_many c) eqn:Hc.
    - apply (operator_step_ok_otm V on ml incl c return_bool op_drops_name lhs_series rhs_series Hc lhs rhs G1 G3 G4 HA).
      unfold new_table. apply repeat_length.
    - apply (operator_step_ok V on ml incl c return_bool op_drops_name lhs_series rhs_series Hc lhs rhs G2 G3 G4 HA).
      unfold new_table. apply repeat_length.
  Qed.
End JoinCorollaries.



(* ---- C11: the reference step does not depend on the order of its inputs ------- *)

Section RefOrder.
  Variable V : Type.
  Variable op : V -> V -> V * bool.
  Variable b2v : bool -> V.
  Variable sigf : labels -> labels.
  Variable result_metric : labels -> labels -> labels.
  Variable c : card.
  Variable return_bool : bool.

  Notation sig_eq := (sig_eq sigf).
  Notation has_dup_sig := (has_dup_sig V sigf).
  Notation ref_step := (ref_step V op b2v sigf result_metric c return_bool).

  Lemma sig_eq_trans a b d : sig_eq a b = true -> sig_eq a d = true -> sig_eq b d = true.
  Proof. unfold Bin.sig_eq. rewrite !labels_eqb_eq. congruence. Qed.

  (* without duplicate signatures, [find] returns the only match, wherever it is *)
  Lemma find_unique_match (one : list (labels * V)) m rs :
    has_dup_sig one = false -> In rs one -> sig_eq m (fst rs) = true ->
    find (fun r => sig_eq m (fst r)) one = Some rs.
  Proof.
    induction one as [|x one IH]; intros Hd Hin Hm; [destruct Hin|].
    simpl in Hd. apply orb_false_iff in Hd. destruct Hd as [Hx Hd]. simpl.
    destruct (sig_eq m (fst x)) eqn:Ex.
    - destruct Hin as [->|Hin]; [reflexivity|].
      exfalso. assert (Hc : existsb (fun y => sig_eq (fst x) (fst y)) one = true).
      { apply existsb_exists. exists rs. split; [assumption|]. eapply sig_eq_trans; eauto. }
      congruence.
    - destruct Hin as [->|Hin]; [congruence|]. apply IH; assumption.
  Qed.

  Lemma has_dup_sig_perm (l l' : list (labels * V)) : Permutation.Permutation l l' -> has_dup_sig l = has_dup_sig l'.
  Proof.
    assert (Hex : forall (p : labels * V -> bool) a b, Permutation.Permutation a b -> existsb p a = existsb p b).
    { intros p a b HP. induction HP; simpl; [reflexivity|rewrite IHHP; reflexivity|
        destruct (p x), (p y); reflexivity|congruence]. }
    intros HP. induction HP; simpl.
    - reflexivity.
    - rewrite IHHP, (Hex _ _ _ HP). reflexivity.
    - assert (Es : sig_eq (fst y) (fst x) = sig_eq (fst x) (fst y)).
      { unfold Bin.sig_eq. destruct (labels_eqb (sigf (fst y)) (sigf (fst x))) eqn:E1, (labels_eqb (sigf (fst x)) (sigf (fst y))) eqn:E2; try reflexivity.
        - apply labels_eqb_eq in E1. symmetry in E1. apply labels_eqb_eq in E1. congruence.
        - apply labels_eqb_eq in E2. symmetry in E2. apply labels_eqb_eq in E2. congruence. }
      rewrite Es. destruct (sig_eq (fst x) (fst y)), (existsb (fun y0 => sig_eq (fst y) (fst y0)) l),
        (existsb (fun y0 => sig_eq (fst x) (fst y0)) l), (has_dup_sig l); reflexivity.
    - congruence.
  Qed.

  (* Two successful evaluations on the same samples in a different order contain the same samples. *)
  Theorem ref_step_order_independent lhs rhs lhs' rhs' out out' :
    Permutation.Permutation lhs lhs' -> Permutation.Permutation rhs rhs' ->
    ref_step lhs rhs = Some out -> ref_step lhs' rhs' = Some out' ->
    forall x, In x out <-> In x out'.
  Proof.
    intros Pl Pr H H' x. unfold Bin.ref_step in H, H'.
    set (many := if is_one_to_many c then rhs else lhs) in *.
    set (one := if is_one_to_many c then lhs else rhs) in *.
    set (many' := if is_one_to_many c then rhs' else lhs') in *.
    set (one' := if is_one_to_many c then lhs' else rhs') in *.
    assert (Pm : Permutation.Permutation many many') by (unfold many, many'; destruct (is_one_to_many c); assumption).
    assert (Po : Permutation.Permutation one one') by (unfold one, one'; destruct (is_one_to_many c); assumption).
    destruct (has_dup_sig one) eqn:Hd; [discriminate|].
    assert (Hd' : has_dup_sig one' = false) by (rewrite <- (has_dup_sig_perm _ _ Po); assumption).
    rewrite Hd' in H'.
    rewrite (ref_many_In V op b2v sigf result_metric c return_bool _ _ _ _ H x).
    rewrite (ref_many_In V op b2v sigf result_metric c return_bool _ _ _ _ H' x).
    split; intros [ls [rs [Hin [Hf He]]]]; exists ls, rs.
    - split; [eapply Permutation.Permutation_in; eauto|]. split; [|assumption].
      apply find_some in Hf. destruct Hf as [Hr Hm].
      apply find_unique_match; [assumption|eapply Permutation.Permutation_in; eauto|assumption].
    - split; [eapply Permutation.Permutation_in; [apply Permutation.Permutation_sym|]; eauto|]. split; [|assumption].
      apply find_some in Hf. destruct Hf as [Hr Hm].
      apply find_unique_match; [assumption|eapply Permutation.Permutation_in; [apply Permutation.Permutation_sym|]; eauto|assumption].
  Qed.
End RefOrder.

Section JoinOrder.
  Variable V : Type.
  Variable op : V -> V -> V * bool.
  Variable b2v : bool -> V.
  Variable on : bool.
  Variable ml incl : list N.
  Variable c : card.
  Variable return_bool : bool.
  Variable op_drops_name : bool.

  Notation stepT := (Z * list (nat * V) * list (nat * V))%type.

  Definition step_samples (lhs_series rhs_series : list labels) (s : stepT) : list (labels * V) :=
    relabel V on ml incl c return_bool op_drops_name lhs_series rhs_series
      (pure_step V op b2v c return_bool (op_hidx on ml c lhs_series rhs_series)
                 (op_lidx on ml c lhs_series rhs_series) (snd (fst s)) (snd s)).

  Lemma matches_reference_any lhs_series rhs_series :
    one_side_unique on ml (one_side_series c lhs_series rhs_series) ->
    (is_one_to_one c = true -> incl = []) ->
    forall (s : stepT) out, good_step V lhs_series rhs_series s ->
    ref_operator_step V op b2v on ml incl c return_bool op_drops_name lhs_series rhs_series (snd (fst s)) (snd s) = Some out ->
    forall m v, In (m, v) (step_samples lhs_series rhs_series s) <-> In (m, v) out.
  Proof.
    unfold one_side_series, step_samples. destruct (is_one_to_many c) eqn:Hc; intros HA Hincl s out Hg Href.
    - apply (run_operator_matches_reference_otm V op b2v on ml incl c return_bool op_drops_name lhs_series rhs_series Hc HA s out Hg Href).
    - apply (run_operator_matches_reference V op b2v on ml incl c return_bool op_drops_name lhs_series rhs_series Hc HA Hincl s out Hg Href).
  Qed.

  (* C11 for the join: the same labelled samples, presented through two different
     series lists (another storage order, another sharding) and in another order
     inside the step vectors, give the same samples - where the reference succeeds *)
  Theorem join_order_independent lhs_series rhs_series lhs_series' rhs_series' (s s' : stepT) out out' :
    one_side_unique on ml (one_side_series c lhs_series rhs_series) ->
    one_side_unique on ml (one_side_series c lhs_series' rhs_series') ->
    (is_one_to_one c = true -> incl = []) ->
    good_step V lhs_series rhs_series s -> good_step V lhs_series' rhs_series' s' ->
    Permutation (labelled V lhs_series (snd (fst s))) (labelled V lhs_series' (snd (fst s'))) ->
    Permutation (labelled V rhs_series (snd s)) (labelled V rhs_series' (snd s')) ->
    ref_operator_step V op b2v on ml incl c return_bool op_drops_name lhs_series rhs_series (snd (fst s)) (snd s) = Some out ->
    ref_operator_step V op b2v on ml incl c return_bool op_drops_name lhs_series' rhs_series' (snd (fst s')) (snd s') = Some out' ->
    forall m v, In (m, v) (step_samples lhs_series rhs_series s) <-> In (m, v) (step_samples lhs_series' rhs_series' s').
  Proof.
    intros HA HA' Hincl Hg Hg' Pl Pr Href Href' m v.
    rewrite (matches_reference_any lhs_series rhs_series HA Hincl s out Hg Href).
    rewrite (matches_reference_any lhs_series' rhs_series' HA' Hincl s' out' Hg' Href').
    unfold ref_operator_step in Href, Href'.
    apply (ref_step_order_independent V op b2v (the_sig on ml) (ref_result_metric op_drops_name return_bool c on ml incl)
             c return_bool _ _ _ _ out out' Pl Pr Href Href').
  Qed.
  (* the same as multisets: a permutation of the reference's samples *)
  Theorem join_step_permutation (dflt : V) lhs_series rhs_series :
    one_side_unique on ml (one_side_series c lhs_series rhs_series) ->
    (is_one_to_one c = true -> incl = []) ->
    forall (s : stepT) out, good_step V lhs_series rhs_series s ->
    ref_operator_step V op b2v on ml incl c return_bool op_drops_name lhs_series rhs_series (snd (fst s)) (snd s) = Some out ->
    Permutation (step_samples lhs_series rhs_series s) out.
  Proof.
    unfold one_side_series, step_samples. destruct (is_one_to_many c) eqn:Hc; intros HA Hincl [[ts lhs] rhs] out [G1 [G2 [G3 G4]]] Href; simpl in *.
    - eapply (operator_step_permutation_otm V dflt); eauto.
      intros h l _ _. apply labels_agree. intros H11. destruct c; discriminate.
    - eapply (operator_step_permutation V dflt); eauto.
      intros h l _ _. apply labels_agree. exact Hincl.
  Qed.
End JoinOrder.


(* ---- the reference step under permutations of its inputs, with multiplicities --- *)

Section RefPerm.
  Variable V : Type.
  Variable op : V -> V -> V * bool.
  Variable b2v : bool -> V.
  Variable sigf : labels -> labels.
  Variable result_metric : labels -> labels -> labels.
  Variable c : card.
  Variable return_bool : bool.

  Notation sig_eq := (sig_eq sigf).
  Notation has_dup_sig := (has_dup_sig V sigf).
  Notation ref_many := (ref_many V op b2v sigf result_metric c return_bool).
  Notation ref_step := (ref_step V op b2v sigf result_metric c return_bool).
  Notation contribution := (contribution V op b2v sigf result_metric c return_bool).
  Notation ref_res := (ref_res V op c).

  (* signature and result metric of what a "many"-side sample emits *)
  Definition key_of (one : list (labels * V)) (ls : labels * V) : list (labels * labels) :=
    match find (fun rs => sig_eq (fst ls) (fst rs)) one with
    | None => []
    | Some rs => if negb return_bool && negb (snd (ref_res ls rs)) then []
                 else [(sigf (fst ls), result_metric (fst ls) (fst rs))]
    end.

  Definition collide (a b : labels * labels) : bool :=
    if is_one_to_one c then labels_eqb (fst a) (fst b)
    else labels_eqb (fst a) (fst b) && labels_eqb (snd a) (snd b).

  Lemma collide_sym a b : collide a b = collide b a.
  Proof.
    assert (S : forall x y, labels_eqb x y = labels_eqb y x).
    { intros x y. destruct (labels_eqb x y) eqn:E1, (labels_eqb y x) eqn:E2; try reflexivity.
      - apply labels_eqb_eq in E1. subst. assert (labels_eqb y y = true) by (apply labels_eqb_eq; reflexivity). congruence.
      - apply labels_eqb_eq in E2. subst. assert (labels_eqb x x = true) by (apply labels_eqb_eq; reflexivity). congruence. }
    unfold collide. destruct (is_one_to_one c); rewrite ?(S (fst a)), ?(S (snd a)); reflexivity.
  Qed.

  Fixpoint pairwise_nc (l : list (labels * labels)) : Prop :=
    match l with
    | [] => True
    | k :: r => (forall k', In k' r -> collide k k' = false) /\ pairwise_nc r
    end.

  Lemma pairwise_nc_perm l l' : Permutation l l' -> pairwise_nc l -> pairwise_nc l'.
  Proof.
    induction 1 as [|x l l' HP IH|x y l|l l' l'' _ IH1 _ IH2]; simpl; intros H.
    - exact I.
    - destruct H as [H1 H2]. split; [|apply IH; assumption].
      intros k' Hk'. apply H1. eapply Permutation_in; [apply Permutation_sym; exact HP|assumption].
    - destruct H as [Hy [Hx Hl]]. split; [|split].
      + intros k' [<-|Hk']; [rewrite collide_sym; apply Hy; left; reflexivity|apply Hx; assumption].
      + intros k' Hk'. apply Hy. right. assumption.
      + assumption.
    - apply IH2, IH1, H.
  Qed.

  (* the duplicate test of ref_many is membership of a colliding key *)
  Lemma dup_test (seen : list (labels * labels)) s m :
    (if is_one_to_one c
     then existsb (fun sm => labels_eqb (fst sm) s) seen
     else existsb (fun sm => labels_eqb (fst sm) s && labels_eqb (snd sm) m) seen) =
    existsb (fun sm => collide sm (s, m)) seen.
  Proof. unfold collide. simpl. destruct (is_one_to_one c); reflexivity. Qed.

  (* success of the reference = no two emitted samples collide (and none with what was seen) *)
  Lemma ref_many_success one : forall many seen, pairwise_nc seen ->
    ((exists out, ref_many many one seen = Some out) <-> pairwise_nc (flat_map (key_of one) many ++ seen)).
  Proof.
    induction many as [|ls many IH]; intros seen Hseen; simpl.
    - split; [intros _; assumption|intros _; eexists; reflexivity].
    - unfold key_of at 1. destruct (find (fun rs => sig_eq (fst ls) (fst rs)) one) as [rs|] eqn:Ef; [|apply IH; assumption].
      fold (ref_res ls rs). destruct (negb return_bool && negb (snd (ref_res ls rs))) eqn:Eskip; [apply IH; assumption|].
      rewrite dup_test. simpl app.
      set (k := (sigf (fst ls), result_metric (fst ls) (fst rs))).
      destruct (existsb (fun sm => collide sm k) seen) eqn:Edup.
      + split; [intros [out H]; discriminate|].
        intros [Hk _]. exfalso. apply existsb_exists in Edup. destruct Edup as [sm [Hsm Hc]].
        rewrite collide_sym in Hc. rewrite (Hk sm) in Hc; [discriminate|apply in_or_app; right; assumption].
      + assert (Hk_seen : forall sm, In sm seen -> collide k sm = false).
        { intros sm Hsm. rewrite collide_sym. destruct (collide sm k) eqn:E; [|reflexivity].
          assert (existsb (fun sm0 => collide sm0 k) seen = true) by (apply existsb_exists; exists sm; auto). congruence. }
        assert (Hseen' : pairwise_nc (k :: seen)) by (split; assumption).
        specialize (IH (k :: seen) Hseen').
        assert (HP : Permutation (flat_map (key_of one) many ++ k :: seen) (k :: flat_map (key_of one) many ++ seen))
          by (apply Permutation_sym, Permutation_middle).
        split.
        * intros [out H]. destruct (ref_many many one (k :: seen)) as [out'|] eqn:Er; [|discriminate].
          apply (pairwise_nc_perm _ _ HP). apply IH. eexists; reflexivity.
        * intros H. assert (H' : pairwise_nc (flat_map (key_of one) many ++ k :: seen))
            by (apply (pairwise_nc_perm _ _ (Permutation_sym HP)); exact H).
          apply IH in H'. destruct H' as [out' Er]. rewrite Er. simpl. eexists; reflexivity.
  Qed.

  Lemma key_of_ext one one' ls : find (fun rs => sig_eq (fst ls) (fst rs)) one = find (fun rs => sig_eq (fst ls) (fst rs)) one' ->
    key_of one ls = key_of one' ls /\ contribution one ls = contribution one' ls.
  Proof. intros H. unfold key_of, BinProofs.contribution. rewrite H. split; reflexivity. Qed.

  (* without duplicate signatures, [find] does not depend on the order of the "one" side *)
  Lemma find_perm (one one' : list (labels * V)) m : Permutation one one' -> has_dup_sig one = false ->
    find (fun rs => sig_eq m (fst rs)) one = find (fun rs => sig_eq m (fst rs)) one'.
  Proof.
    intros HP Hd. assert (Hd' : has_dup_sig one' = false) by (rewrite <- (has_dup_sig_perm V sigf _ _ HP); assumption).
    destruct (find (fun rs => sig_eq m (fst rs)) one) as [rs|] eqn:Ef.
    - apply find_some in Ef. destruct Ef as [Hin Hm]. symmetry.
      apply (find_unique_match V sigf); [assumption|eapply Permutation_in; eauto|assumption].
    - destruct (find (fun rs => sig_eq m (fst rs)) one') as [rs'|] eqn:Ef'; [|reflexivity].
      apply find_some in Ef'. destruct Ef' as [Hin Hm].
      pose proof (find_none _ _ Ef rs' (Permutation_in _ (Permutation_sym HP) Hin)) as Hn. simpl in Hn. congruence.
  Qed.

  (* The reference step on permuted inputs: it succeeds iff it succeeded, and the
     results are permutations of each other. *)
  Theorem ref_step_permutation lhs rhs lhs' rhs' out :
    Permutation lhs lhs' -> Permutation rhs rhs' -> ref_step lhs rhs = Some out ->
    exists out', ref_step lhs' rhs' = Some out' /\ Permutation out out'.
  Proof.
    intros Pl Pr H. unfold Bin.ref_step in *.
    set (many := if is_one_to_many c then rhs else lhs) in *.
    set (one := if is_one_to_many c then lhs else rhs) in *.
    set (many' := if is_one_to_many c then rhs' else lhs').
    set (one' := if is_one_to_many c then lhs' else rhs').
    assert (Pm : Permutation many many') by (unfold many, many'; destruct (is_one_to_many c); assumption).
    assert (Po : Permutation one one') by (unfold one, one'; destruct (is_one_to_many c); assumption).
    destruct (has_dup_sig one) eqn:Hd; [discriminate|].
    rewrite <- (has_dup_sig_perm V sigf _ _ Po), Hd.
    assert (Hext : forall ls, key_of one ls = key_of one' ls /\ contribution one ls = contribution one' ls).
    { intros ls. apply key_of_ext. apply find_perm; assumption. }
    assert (Hok : pairwise_nc (flat_map (key_of one) many ++ [])) by (apply (ref_many_success one many [] I); eexists; exact H).
    assert (Hok' : pairwise_nc (flat_map (key_of one') many' ++ [])).
    { rewrite app_nil_r in *. apply (pairwise_nc_perm (flat_map (key_of one) many)); [|assumption].
      erewrite (flat_map_ext_in (key_of one) (key_of one')) by (intros ls _; apply Hext).
      apply Permutation_flat_map. assumption. }
    apply (ref_many_success one' many' [] I) in Hok'. destruct Hok' as [out' H'].
    exists out'. split; [assumption|].
    rewrite (ref_many_list V op b2v sigf result_metric c return_bool _ _ _ _ H).
    rewrite (ref_many_list V op b2v sigf result_metric c return_bool _ _ _ _ H').
    erewrite (flat_map_ext_in (contribution one) (contribution one')) by (intros ls _; apply Hext).
    apply Permutation_flat_map. assumption.
  Qed.
End RefPerm.
