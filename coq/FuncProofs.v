(* Proofs about Func.v (properties C05, C06). *)
From Coq Require Import List String ZArith NArith Bool Lia.
From Verif Require Import Base Agg Func.
Import ListNotations.
Close Scope Z_scope.

Section StepProofs.
  Variable V : Type.
  Variable nan : V.

  (* scalar(v) delivers exactly one value (ID 0) at every step, whatever v holds *)
  Theorem scalar_step_one_value vec : exists v, scalar_step V nan vec = [(0, v)].
  Proof.
    unfold scalar_step. destruct vec as [|[i v] [|x rest]]; eauto.
  Qed.

  Theorem scalar_step_nan_unless_singleton vec : List.length vec <> 1 -> scalar_step V nan vec = [(0, nan)].
  Proof. unfold scalar_step. destruct vec as [|[i v] [|x rest]]; simpl; intros H; try reflexivity. lia. Qed.

  Theorem scalar_step_singleton i v : scalar_step V nan [(i, v)] = [(0, v)].
  Proof. reflexivity. Qed.

  (* a function step keeps the IDs (a subsequence of the input's, in order) and
     drops exactly the samples without a result *)
  Theorem func_step_ids f vec :
    map fst (func_step V f vec) = map fst (filter (fun iv => match f (snd iv) with Some _ => true | None => false end) vec).
  Proof.
    unfold func_step. induction vec as [|[i v] vec IH]; simpl; [reflexivity|].
    destruct (f v); simpl; rewrite IH; reflexivity.
  Qed.

  Theorem func_step_total f vec : (forall v, f v <> None) -> map fst (func_step V f vec) = map fst vec.
  Proof.
    intros Hf. unfold func_step. induction vec as [|[i v] vec IH]; simpl; [reflexivity|].
    destruct (f v) eqn:E; [simpl; rewrite IH; reflexivity|exfalso; exact (Hf v E)].
  Qed.

  (* clamp with max < min drops every sample *)
  Theorem clamp_inverted_is_empty ltb vmax vmin lo hi vec :
    ltb hi lo = true -> func_step V (clamp_fn V ltb vmax vmin lo hi) vec = [].
  Proof.
    intros H. unfold func_step, clamp_fn. rewrite H. induction vec; simpl; auto.
  Qed.

  (* vector/scalar comparison with bool keeps every sample (as 0/1); without bool
     it keeps exactly the samples for which the comparison holds *)
  Theorem scalar_binop_bool_keeps_all op b2v sl s vec :
    map fst (scalar_binop_step V op true b2v sl s vec) = map fst vec.
  Proof.
    unfold scalar_binop_step. induction vec as [|[i v] vec IH]; simpl; [reflexivity|].
    destruct (if sl then op s v else op v s). simpl. rewrite IH. reflexivity.
  Qed.

  Theorem scalar_binop_filter op b2v sl s vec :
    map fst (scalar_binop_step V op false b2v sl s vec) =
    map fst (filter (fun iv => snd (if sl then op s (snd iv) else op (snd iv) s)) vec).
  Proof.
    unfold scalar_binop_step. induction vec as [|[i v] vec IH]; simpl; [reflexivity|].
    destruct (if sl then op s v else op v s) as [val keep]. simpl.
    destruct keep; simpl; rewrite IH; reflexivity.
  Qed.
End StepProofs.

(* ---- signatures ----------------------------------------------------------- *)

Lemma signature_on_subset ml l : forall kv, In kv (signature true ml l) -> In kv l /\ mem_n (fst kv) ml = true.
Proof. intros kv H. unfold signature in H. apply filter_In in H. exact H. Qed.

Lemma signature_ignoring_excludes ml l : forall kv, In kv (signature false ml l) ->
  In kv l /\ mem_n (fst kv) ml = false /\ fst kv <> 0%N.
Proof.
  intros kv H. unfold signature in H. apply filter_In in H. destruct H as [Hin Hc].
  apply andb_true_iff in Hc. destruct Hc as [H1 H2].
  apply negb_true_iff in H1, H2. apply N.eqb_neq in H2. auto.
Qed.

(* the metric name never takes part in matching unless on(__name__) asks for it *)
Theorem signature_ignores_metric_name ml v l :
  signature false ml ((0%N, v) :: l) = signature false ml l.
Proof. unfold signature. simpl. rewrite andb_false_r. reflexivity. Qed.

Theorem drops_name_table :
  map (fun op => drops_name op false) ["+"; "-"; "*"; "/"; "^"; "%"; "=="; "!="; ">"; "<"; ">="; "<="; "atan2"]%string =
  [true; true; true; true; true; true; false; false; false; false; false; false; false] /\
  forall op, drops_name op true = true.
Proof. split; [vm_compute; reflexivity|]. intros op. unfold drops_name. apply orb_true_r. Qed.
