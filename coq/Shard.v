(* Sharding of a select's series over N parallel selectors (storage.seriesShard)
   and the re-assembly by exchange.coalesceOperator (series concatenated in
   operator order, sample IDs re-based by the number of series of the earlier
   operators, step vectors merged in operator order). *)
From Coq Require Import List ZArith NArith Bool Lia.
From Verif Require Import Base Select.
Import ListNotations.
Close Scope Z_scope.

Definition shard_lo (n N i : nat) : nat := (i * n) / N.

Definition slice {A} (a b : nat) (l : list A) : list A := firstn (b - a) (skipn a l).

(* storage.seriesShard: series[index*len/numShards : (index+1)*len/numShards] *)
Definition shard {A} (l : list A) (N i : nat) : list A :=
  slice (shard_lo (length l) N i) (shard_lo (length l) N (S i)) l.

Definition shards {A} (l : list A) (N : nat) : list (list A) := map (shard l N) (seq 0 N).

(* coalesce.loadSeries: sampleOffsets[i] = number of series of operators < i *)
Fixpoint offsets_from {A} (o : nat) (parts : list (list A)) : list nat :=
  match parts with
  | [] => []
  | p :: rest => o :: offsets_from (o + length p) rest
  end.

(* coalesce.Next on one step: inputs in operator order *)
Fixpoint merge_step (t : Z) (offs : list nat) (ins : list stepvec) : stepvec :=
  match offs, ins with
  | o :: offs', sv :: ins' =>
      let r := merge_step t offs' ins' in
      mkSV t (map (fun i => o + i) (svIDs sv) ++ svIDs r) (svVals sv ++ svVals r)
  | _, _ => mkSV t [] []
  end.

(* The coalesce operator over its children's streams: batch k, step j of the
   output merges the children's k-th batch's j-th vectors. [times] are the batch
   timestamps (every child emits the query's step times). *)
Definition empty_sv : stepvec := mkSV 0%Z [] [].

Definition co_run (offs : list nat) (children : list (list batch)) (times : list (list Z)) : list batch :=
  map (fun k =>
         let tsb := nth k times [] in
         map (fun j => merge_step (nth j tsb 0%Z) offs
                         (map (fun c => nth j (nth k c []) empty_sv) children))
             (seq 0 (length tsb)))
      (seq 0 (length times)).

(* newShardedVectorSelector: N vector selectors over the shards of the selected
   series, merged by a coalesce operator *)
Definition sharded_selector (delta lb off : Z) (N : nat) (sers : list (list sample)) (times : list (list Z)) : list batch :=
  let parts := shards sers N in
  co_run (offsets_from 0 parts)
         (map (fun p => vs_run delta lb off (map mit_reset p) times) parts) times.

(* ---- lemmas ----------------------------------------------------------- *)

Lemma skipn_skipn {A} a b (l : list A) : skipn a (skipn b l) = skipn (b + a) l.
Proof.
  revert l. induction b as [|b IH]; intros l; simpl; [reflexivity|].
  destruct l as [|x l]; [destruct a; reflexivity|apply IH].
Qed.

Lemma firstn_add {A} a b (l : list A) : firstn (a + b) l = firstn a l ++ firstn b (skipn a l).
Proof.
  revert l. induction a as [|a IH]; intros l; simpl; [reflexivity|].
  destruct l as [|x l]; simpl; [destruct b; reflexivity|f_equal; apply IH].
Qed.

Lemma slice_app {A} a b c (l : list A) : a <= b -> b <= c -> slice a b l ++ slice b c l = slice a c l.
Proof.
  intros Hab Hbc. unfold slice.
  replace (c - a) with ((b - a) + (c - b)) by lia.
  rewrite firstn_add. f_equal. rewrite skipn_skipn. f_equal. f_equal. lia.
Qed.

Lemma slice_full {A} (l : list A) : slice 0 (length l) l = l.
Proof. unfold slice. simpl. rewrite Nat.sub_0_r. apply firstn_all. Qed.

Lemma shard_lo_mono n N i : shard_lo n N i <= shard_lo n N (S i).
Proof.
  unfold shard_lo. destruct N as [|N']; [simpl; lia|].
  apply Nat.div_le_mono; lia.
Qed.

Lemma shard_lo_0 n N : shard_lo n N 0 = 0.
Proof. unfold shard_lo. simpl. destruct N; reflexivity. Qed.

Lemma shard_lo_N n N : 0 < N -> shard_lo n N N = n.
Proof. intros HN. unfold shard_lo. rewrite Nat.mul_comm. apply Nat.div_mul. lia. Qed.

Lemma concat_slices {A} (l : list A) (b : nat -> nat) :
  (forall i, b i <= b (S i)) ->
  forall k, concat (map (fun i => slice (b i) (b (S i)) l) (seq 0 k)) = slice (b 0) (b k) l.
Proof.
  intros Hm. induction k as [|k IH].
  - simpl. unfold slice. rewrite Nat.sub_diag. reflexivity.
  - rewrite seq_S, map_app, concat_app, IH. simpl. rewrite app_nil_r.
    apply slice_app; [|apply Hm].
    clear IH. induction k as [|k IHk]; [lia|]. specialize (Hm k). lia.
Qed.

(* every series is in exactly one shard, in order *)
Theorem shards_partition {A} (l : list A) N : 0 < N -> concat (shards l N) = l.
Proof.
  intros HN. unfold shards, shard.
  rewrite (concat_slices l (shard_lo (length l) N)) by (intros; apply shard_lo_mono).
  rewrite shard_lo_0, shard_lo_N by assumption. apply slice_full.
Qed.

(* IDs of a step vector built from per-series results, shifted *)
Lemma collect_shift i col :
  collect i col = (map (fun k => i + k) (fst (collect 0 col)), snd (collect 0 col)).
Proof.
  revert i. induction col as [|c col IH]; intros i; simpl; [reflexivity|].
  rewrite (IH (S i)), (IH 1). simpl.
  assert (Hm : map (fun k => S (i + k)) (fst (collect 0 col)) =
               map (fun k => i + k) (map (fun k => S k) (fst (collect 0 col)))).
  { rewrite map_map. apply map_ext. intros; lia. }
  destruct c; simpl.
  - rewrite Nat.add_0_r. f_equal. f_equal. exact Hm.
  - f_equal. exact Hm.
Qed.

Lemma collect_app i c1 c2 :
  collect i (c1 ++ c2) =
  (fst (collect i c1) ++ fst (collect (i + length c1) c2),
   snd (collect i c1) ++ snd (collect (i + length c1) c2)).
Proof.
  revert i. induction c1 as [|c c1 IH]; intros i; simpl.
  - rewrite Nat.add_0_r. destruct (collect i c2); reflexivity.
  - rewrite (IH (S i)). replace (S i + length c1) with (i + S (length c1)) by lia.
    destruct (collect (S i) c1) as [ids vs].
    destruct (collect (i + S (length c1)) c2) as [ids2 vs2]. simpl.
    destruct c; reflexivity.
Qed.

(* merging the shards' step vectors in shard order with re-based IDs gives the
   step vector of the unsharded selection *)
Theorem merge_step_select lb off t : forall (parts : list (list (list sample))) o,
  let whole := stepvec_of t (map (fun ss => pick lb ss (t - off)) (concat parts)) in
  merge_step t (offsets_from o parts) (map (fun p => select_step lb off p t) parts) =
  mkSV t (map (fun k => o + k) (svIDs whole)) (svVals whole).
Proof.
  induction parts as [|p parts IH]; intros o; simpl.
  - reflexivity.
  - rewrite (IH (o + length p)). unfold select_step, stepvec_of. simpl.
    rewrite map_app, collect_app, map_length.
    destruct (collect 0 (map (fun ss => pick lb ss (t - off)) p)) as [ids1 vs1] eqn:E1.
    rewrite (collect_shift (0 + length p)).
    destruct (collect 0 (map (fun ss => pick lb ss (t - off)) (concat parts))) as [ids2 vs2] eqn:E2.
    simpl. f_equal. rewrite map_app, !map_map. f_equal. apply map_ext. intros; lia.
Qed.

Corollary merge_step_select_0 lb off t parts :
  merge_step t (offsets_from 0 parts) (map (fun p => select_step lb off p t) parts) =
  select_step lb off (concat parts) t.
Proof.
  rewrite merge_step_select. unfold select_step, stepvec_of.
  destruct (collect 0 _) as [ids vs]. simpl. f_equal.
  rewrite <- (map_id ids) at 2. apply map_ext. intros; lia.
Qed.

Example shards_example :
  shards [1; 2; 3; 4; 5; 6; 7]%nat 3 = [[1; 2]; [3; 4]; [5; 6; 7]]%nat /\
  shards [1; 2]%nat 4 = [[]; [1]; []; [2]]%nat.
Proof. split; vm_compute; reflexivity. Qed.
