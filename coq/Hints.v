(* Storage selects and their hints (property C16).
   [eng_selects] follows the hints value execution.newOperator passes down
   (execution.go, getTimeRangesForVectorSelector); [ref_selects] follows the
   reference engine's populateSeries / getTimeRangesForSelector /
   extractFuncFromPath / extractGroupsFromPath over the same preprocessed AST. *)
From Coq Require Import List String ZArith NArith Bool Lia.
From Verif Require Import Ast Generated Plan Base.
Import ListNotations.
Open Scope Z_scope.

Record sel := mkSel {
  s_ms : list matcher; s_start : Z; s_end : Z; s_step : Z; s_range : Z;
  s_func : string; s_grp : list N; s_by : bool }.

Record hints := mkH { h_func : string; h_grp : list N; h_by : bool }.

(* getTimeRangesForVectorSelector (both engines use the same arithmetic) *)
Definition sel_range (w : window) (lb : Z) (v : vsel) (eval_range : Z) : Z * Z :=
  let '(s, e) := match vat v with Some t => (t, t) | None => (w_start w, w_end w) end in
  let s' := if eval_range =? 0 then s - lb else s - eval_range in
  (s' - vorig v, e - vorig v).

Definition mk_sel (w : window) (lb : Z) (v : vsel) (eval_range : Z) (h : hints) : sel :=
  let '(s, e) := sel_range w lb v eval_range in
  mkSel (vms v) s e (w_step w) eval_range (h_func h) (h_grp h) (h_by h).

Definition clear_grouping (h : hints) : hints := mkH (h_func h) [] false.

Fixpoint first_mat (args : list expr) : option (vsel * Z) :=
  match args with
  | [] => None
  | EMat v r :: _ => Some (v, r)
  | _ :: rest => first_mat rest
  end.

(* execution.newOperator, reduced to the selects it registers *)
Fixpoint eng_selects (w : window) (lb : Z) (h : hints) (e : expr) : list sel :=
  match e with
  | EVec v => [mk_sel w lb v 0 h]
  | ECall f args =>
      let h' := mkH f [] false in
      if String.eqb f "histogram_quantile" then flat_map (eng_selects w lb h') args
      else match first_mat args with
           | Some (v, r) => [mk_sel w lb v r h']
           | None => flat_map (eng_selects w lb h') args
           end
  | EAgg op without grp param e1 =>
      let h' := mkH op grp (negb without) in
      eng_selects w lb h' e1 ++ match param with Some p => eng_selects w lb h' p | None => [] end
  | EBin _ _ _ _ _ _ l r =>
      let h' := mkH "" [] false in
      eng_selects w lb h' l ++ eng_selects w lb h' r
  | EParen e1 => eng_selects w lb (clear_grouping h) e1
  | EUn _ e1 => eng_selects w lb (clear_grouping h) e1
  | EStepInv e1 =>
      match e1 with
      | ENum _ => []
      | _ => eng_selects (mkW (w_start w) (w_start w) (w_step w)) lb (clear_grouping h) e1
      end
  | _ => []
  end.

(* ---- the reference engine: path-based hints --------------------------- *)

Inductive pnode := KAgg (op : string) (grp : list N) (by_ : bool) | KCall (f : string) | KBin | KOther.

(* extractFuncFromPath: nearest call/aggregation, unless a binary expression is met first
   (the path is kept innermost first) *)
Fixpoint func_of_path (p : list pnode) : string :=
  match p with
  | [] => ""
  | KAgg op _ _ :: _ => op
  | KCall f :: _ => f
  | KBin :: _ => ""
  | KOther :: rest => func_of_path rest
  end.

(* extractGroupsFromPath: only the immediate parent counts *)
Definition groups_of_path (p : list pnode) : list N * bool :=
  match p with
  | KAgg _ grp b :: _ => (grp, b)
  | _ => ([], false)
  end.

Definition ref_sel (w : window) (lb : Z) (v : vsel) (eval_range : Z) (p : list pnode) : sel :=
  let '(s, e) := sel_range w lb v eval_range in
  let '(g, b) := groups_of_path p in
  mkSel (vms v) s e (w_step w) eval_range (func_of_path p) g b.

(* populateSeries: every vector selector of the tree, in Inspect order *)
Fixpoint ref_selects (w : window) (lb : Z) (p : list pnode) (e : expr) : list sel :=
  match e with
  | EVec v => [ref_sel w lb v 0 p]
  | EMat v r => [ref_sel w lb v r (KOther :: p)]
  | ECall f args => flat_map (ref_selects w lb (KCall f :: p)) args
  | EAgg op without grp param e1 =>
      let p' := KAgg op grp (negb without) :: p in
      ref_selects w lb p' e1 ++ match param with Some q => ref_selects w lb p' q | None => [] end
  | EBin _ _ _ _ _ _ l r => ref_selects w lb (KBin :: p) l ++ ref_selects w lb (KBin :: p) r
  | EParen e1 => ref_selects w lb (KOther :: p) e1
  | EUn _ e1 => ref_selects w lb (KOther :: p) e1
  | EStepInv e1 => ref_selects w lb (KOther :: p) e1
  | ESubq e1 => ref_selects w lb (KOther :: p) e1
  | _ => []
  end.

(* ---- well-formedness of preprocessed expressions ----------------------- *)

(* every selector below carries an @ timestamp (what makes a subtree step invariant) *)
Fixpoint pinned (e : expr) : bool :=
  match e with
  | EVec v | EMat v _ => match vat v with Some _ => true | None => false end
  | ECall _ args => forallb pinned args
  | EAgg _ _ _ param e1 => pinned e1 && match param with Some p => pinned p | None => true end
  | EBin _ _ _ _ _ _ l r => pinned l && pinned r
  | EParen e1 | EUn _ e1 | EStepInv e1 | ESubq e1 => pinned e1
  | _ => true
  end.

(* PreprocessExpr wraps only step-invariant subtrees *)
Fixpoint stepinv_ok (e : expr) : bool :=
  match e with
  | ECall _ args => forallb stepinv_ok args
  | EAgg _ _ _ param e1 => stepinv_ok e1 && match param with Some p => stepinv_ok p | None => true end
  | EBin _ _ _ _ _ _ l r => stepinv_ok l && stepinv_ok r
  | EParen e1 | EUn _ e1 | ESubq e1 => stepinv_ok e1
  | EStepInv e1 => pinned e1 && stepinv_ok e1
  | _ => true
  end.
