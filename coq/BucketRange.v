(* Bucket.v on the rationals: for a well-formed histogram (upper bounds strictly increasing, the last
   one +Inf, cumulative counts non-decreasing, a positive total) and 0 <= q <= 1, the bisection finds
   the first bucket whose cumulative count reaches the rank q * total, and the result lies between
   that bucket's bounds (the lower bound of the first bucket being 0 when its upper bound is positive);
   in the +Inf bucket the result is the highest finite bound. *)
From Coq Require Import List ZArith QArith Qabs Bool Arith Lia Lqa.
From Verif Require Import Base RangeArith RangeArithProofs Bucket.
Import ListNotations.

(* ---- sort.Search ------------------------------------------------------------------------ *)

Lemma bsearch_spec (f : nat -> bool) : forall fuel i j,
  (j - i < fuel)%nat -> (i <= j)%nat ->
  (forall k, (k < i)%nat -> f k = false) -> (forall k, (j <= k)%nat -> f k = true) ->
  (forall a b, (a <= b)%nat -> f a = true -> f b = true) ->
  let r := bsearch f fuel i j in
  (i <= r <= j)%nat /\ (forall k, (k < r)%nat -> f k = false) /\ (forall k, (r <= k)%nat -> f k = true).
Proof.
  induction fuel as [|fu IH]; intros i j Hf Hij Hlo Hhi Hmono; [lia|].
  cbn [bsearch]. destruct (Nat.ltb_spec i j) as [Hlt|Hge].
  - set (h := Nat.div (i + j) 2).
    assert (Hh : (i <= h < j)%nat).
    { unfold h. split; [apply Nat.div_le_lower_bound; lia|apply Nat.div_lt_upper_bound; lia]. }
    destruct (f h) eqn:Efh.
    + destruct (IH i h) as (A & B & C); try lia; try assumption.
      { intros k Hk. apply (Hmono h k Hk Efh). }
      cbv zeta. repeat split; try lia; assumption.
    + destruct (IH (S h) j) as (A & B & C); try lia; try assumption.
      { intros k Hk. destruct (f k) eqn:E; [|reflexivity]. rewrite (Hmono k h ltac:(lia) E) in Efh. discriminate. }
      cbv zeta. repeat split; try lia; assumption.
  - assert (i = j) by lia. subst j. cbv zeta. repeat split; try lia; assumption.
Qed.

Open Scope Q_scope.

Notation qbucket := (bucket Q).
Notation qcnt := (cnt Q).
Notation qub := (ub Q).

Definition qnth (m : list qbucket) (i : nat) : qbucket := nth i m (dflt Q qops).

(* a well-formed histogram after sorting and merging: at least two buckets, cumulative counts
   non-decreasing, a positive total, finite strictly increasing bounds before the last bucket *)
Record wf_hist (m : list qbucket) (us : nat -> Q) : Prop := mkWf {
  wf_len : (2 <= length m)%nat;
  wf_counts : forall i j, (i <= j < length m)%nat -> qcnt (qnth m i) <= qcnt (qnth m j);
  wf_total : 0 < qcnt (qnth m (length m - 1));
  wf_ubs : forall i, (i < length m - 1)%nat -> qub (qnth m i) = Some (us i);
  wf_incr : forall i j, (i < j)%nat -> (j < length m - 1)%nat -> us i < us j }.

Lemma qle_bool_iff a b : Qle_bool a b = true <-> a <= b.
Proof. apply Qle_bool_iff. Qed.

Lemma last_nth (m : list qbucket) d : m <> [] -> last m d = nth (length m - 1) m d.
Proof.
  induction m as [|x m IH]; intros H; [congruence|]. destruct m as [|y m]; [reflexivity|].
  change (last (x :: y :: m) d) with (last (y :: m) d). rewrite IH by discriminate.
  simpl length. replace (S (S (length m)) - 1)%nat with (S (length m)) by lia.
  simpl. replace (length m - 0)%nat with (length m) by lia. reflexivity.
Qed.

Section Range.
  Variables (pinf : Q) (m : list qbucket) (us : nat -> Q) (q : Q).
  Hypothesis Hwf : wf_hist m us.
  Hypothesis Hq0 : 0 <= q.
  Hypothesis Hq1 : q <= 1.

  Let n := length m.
  Let total := qcnt (qnth m (n - 1)).
  Let rank := q * total.
  Let f := fun i => Qle_bool rank (qcnt (qnth m i)).
  Let b := bsearch f n 0 (n - 1).

  Lemma rank_bounds : 0 <= rank /\ rank <= total.
  Proof. unfold rank. pose proof (wf_total m us Hwf) as Ht. fold n total in Ht. split; nra. Qed.

  Lemma f_mono i j : (i <= j)%nat -> (j < n)%nat -> f i = true -> f j = true.
  Proof.
    unfold f. intros Hij Hj Hi. apply qle_bool_iff in Hi. apply qle_bool_iff.
    pose proof (wf_counts m us Hwf i j ltac:(fold n; lia)). lra.
  Qed.

  (* beyond the list the default bucket counts 0: monotonicity is only needed inside [0, n-1] *)
  Lemma b_spec : (b <= n - 1)%nat /\ (forall k, (k < b)%nat -> qcnt (qnth m k) < rank) /\ rank <= qcnt (qnth m b).
  Proof.
    pose proof (wf_len m us Hwf) as Hl. fold n in Hl.
    (* bisection over a predicate that is made monotone beyond n - 1 *)
    set (g := fun i => if Nat.ltb i (n - 1) then f i else true).
    assert (Eb : b = bsearch g n 0 (n - 1)).
    { unfold b. assert (G : forall fuel i j, (j <= n - 1)%nat -> bsearch f fuel i j = bsearch g fuel i j).
      { induction fuel as [|fu IH]; intros i j Hj; [reflexivity|]. cbn [bsearch].
        destruct (Nat.ltb_spec i j) as [Hlt|]; [|reflexivity].
        assert (Hh : (Nat.div (i + j) 2 < j)%nat) by (apply Nat.div_lt_upper_bound; lia).
        unfold g at 1. destruct (Nat.ltb_spec (Nat.div (i + j) 2) (n - 1)) as [_|Hc]; [|lia].
        destruct (f (Nat.div (i + j) 2)); apply IH; lia. }
      apply G. lia. }
    destruct (bsearch_spec g n 0 (n - 1)) as (A & B & C); try lia.
    - intros k Hk. unfold g. destruct (Nat.ltb_spec k (n - 1)); [lia|reflexivity].
    - intros x y Hxy Hx. unfold g in *. destruct (Nat.ltb_spec y (n - 1)) as [Hy|]; [|reflexivity].
      destruct (Nat.ltb_spec x (n - 1)) as [_|Hc]; [|lia]. apply (f_mono x y Hxy ltac:(lia) Hx).
    - rewrite <- Eb in A, B, C. split; [lia|]. split.
      + intros k Hk. specialize (B k Hk). unfold g in B. destruct (Nat.ltb_spec k (n - 1)) as [_|Hc]; [|lia].
        unfold f in B. destruct (Qle_bool rank (qcnt (qnth m k))) eqn:E; [discriminate|].
        apply Qnot_le_lt. intros Hle. apply qle_bool_iff in Hle. congruence.
      + destruct (Nat.eq_dec b (n - 1)) as [->|Hne].
        * fold total. apply rank_bounds.
        * specialize (C b (le_n _)). unfold g in C. destruct (Nat.ltb_spec b (n - 1)) as [_|Hc]; [|lia].
          apply qle_bool_iff. exact C.
  Qed.

  Definition result := bq_core Q qops pinf q m.

  (* the rank's bucket is the last one: the highest finite upper bound *)
  Theorem in_last_bucket : b = (n - 1)%nat -> result = us (n - 2).
  Proof.
    intros Hb. pose proof (wf_len m us Hwf) as Hl. fold n in Hl.
    unfold result, bq_core. fold n.
    destruct (Nat.ltb_spec n 2) as [|_]; [lia|].
    assert (Hne : m <> []) by (intros E; unfold n in Hl; rewrite E in Hl; simpl in Hl; lia).
    rewrite (last_nth m (dflt Q qops) Hne). fold n. fold (qnth m (n - 1)). fold total.
    assert (Hz : RangeArith.eqb qops total (zero qops) = false).
    { simpl. pose proof (wf_total m us Hwf) as Ht. fold n total in Ht.
      destruct (Qeq_bool total 0) eqn:E; [|reflexivity]. apply Qeq_bool_iff in E. lra. }
    rewrite Hz. cbv zeta.
    change (bsearch (fun i => leb qops (mul qops q total) (qcnt (nth i m (dflt Q qops)))) n 0 (n - 1)) with b.
    rewrite Hb, Nat.eqb_refl. unfold ubv. fold (qnth m (n - 2)). rewrite (wf_ubs m us Hwf (n - 2)%nat) by (fold n; lia). reflexivity.
  Qed.

  (* otherwise the result is inside the bucket: between the previous upper bound (0 for the first
     bucket when its bound is positive) and the bucket's own *)
  Theorem in_inner_bucket : (b < n - 1)%nat ->
    (b = 0%nat -> us 0%nat <= 0 -> result = us 0%nat) /\
    (b = 0%nat -> 0 < us 0%nat -> 0 <= result /\ result <= us 0%nat) /\
    (forall b', b = S b' -> us b' <= result /\ result <= us b).
  Proof.
    intros Hb. pose proof (wf_len m us Hwf) as Hl. fold n in Hl.
    destruct b_spec as (_ & Hbelow & Hreach).
    pose proof rank_bounds as [Hr0 Hr1].
    unfold result, bq_core. fold n.
    destruct (Nat.ltb_spec n 2) as [|_]; [lia|].
    assert (Hne : m <> []) by (intros E; unfold n in Hl; rewrite E in Hl; simpl in Hl; lia).
    rewrite (last_nth m (dflt Q qops) Hne). fold n. fold (qnth m (n - 1)). fold total.
    assert (Hz : RangeArith.eqb qops total (zero qops) = false).
    { simpl. pose proof (wf_total m us Hwf) as Ht. fold n total in Ht.
      destruct (Qeq_bool total 0) eqn:E; [|reflexivity]. apply Qeq_bool_iff in E. lra. }
    rewrite Hz. cbv zeta.
    change (bsearch (fun i => leb qops (mul qops q total) (qcnt (nth i m (dflt Q qops)))) n 0 (n - 1)) with b.
    destruct (Nat.eqb_spec b (n - 1)) as [|_]; [lia|].
    fold (qnth m 0) (qnth m b). unfold ubv.
    rewrite (wf_ubs m us Hwf b) by (fold n; lia).
    rewrite (wf_ubs m us Hwf 0%nat) by (fold n; lia).
    split; [|split].
    - intros Hb0 Hle. rewrite Hb0. simpl Nat.eqb. cbn [andb].
      assert (E : leb qops (us 0%nat) (zero qops) = true) by (simpl; apply qle_bool_iff; exact Hle).
      rewrite E. reflexivity.
    - intros Hb0 Hpos. rewrite Hb0. simpl Nat.eqb. cbn [andb].
      assert (E : leb qops (us 0%nat) (zero qops) = false).
      { simpl. destruct (Qle_bool (us 0%nat) 0) eqn:E; [|reflexivity]. apply qle_bool_iff in E. lra. }
      rewrite E. rewrite Hb0 in Hreach. fold rank.
      cbn [RangeArith.add RangeArith.zero RangeArith.mul RangeArith.sub RangeArith.div qops].
      set (c := qcnt (qnth m 0)) in *.
      destruct (Qeq_dec c 0) as [Ec|Ec].
      + assert (Hrz : rank == 0) by lra. change (q * total) with rank. rewrite Hrz. unfold Qdiv. rewrite Qmult_0_l. split; lra.
      + assert (Hc : 0 < c) by lra. change (q * total) with rank.
        assert (F0 : 0 <= rank / c) by (apply Qle_shift_div_l; [assumption|lra]).
        assert (F1 : rank / c <= 1) by (apply Qle_shift_div_r; [assumption|lra]).
        split; nra.
    - intros b' Hb'. rewrite Hb'. simpl Nat.eqb. cbn [andb].
      fold (qnth m b'). rewrite (wf_ubs m us Hwf b') by (fold n; lia). fold rank.
      cbn [RangeArith.add RangeArith.zero RangeArith.mul RangeArith.sub RangeArith.div qops].
      pose proof (Hbelow b' ltac:(lia)) as Hlt. rewrite Hb' in Hreach.
      pose proof (wf_incr m us Hwf b' (S b') ltac:(lia) ltac:(fold n; lia)) as Hinc.
      set (c0 := qcnt (qnth m b')) in *. set (c := qcnt (qnth m (S b'))) in *. change (q * total) with rank.
      assert (Hd : 0 < c - c0) by lra.
      assert (F0 : 0 <= (rank - c0) / (c - c0)) by (apply Qle_shift_div_l; [assumption|lra]).
      assert (F1 : (rank - c0) / (c - c0) <= 1) by (apply Qle_shift_div_r; [assumption|lra]).
      split; nra.
  Qed.
End Range.

(* non-vacuity: le=1: 2, le=2: 6, le=+Inf: 8 *)
Example wf_example :
  wf_hist [mkB Q (Some 1) 2; mkB Q (Some 2) 6; mkB Q None 8] (fun i => inject_Z (Z.of_nat (S i))).
Proof.
  constructor; simpl.
  - lia.
  - intros i j [Hij Hj]. destruct i as [|[|[|i]]], j as [|[|[|j]]]; simpl; try lia; unfold Qle; simpl; lia.
  - reflexivity.
  - intros i Hi. destruct i as [|[|i]]; [reflexivity|reflexivity|lia].
  - intros i j Hij Hj. destruct i as [|[|i]], j as [|[|j]]; try lia. reflexivity.
Qed.

(* the bucket in which the cumulative count reaches the rank *)
Definition rank_bucket (q : Q) (m : list qbucket) : nat :=
  bsearch (fun i => Qle_bool (q * qcnt (qnth m (length m - 1))) (qcnt (qnth m i))) (length m) 0 (length m - 1).

Theorem quantile_in_rank_bucket pinf m us q : wf_hist m us -> 0 <= q -> q <= 1 ->
  let n := length m in
  let rank := q * qcnt (qnth m (n - 1)) in
  let b := rank_bucket q m in
  let r := bq_core Q qops pinf q m in
  (b <= n - 1)%nat /\ (forall k, (k < b)%nat -> qcnt (qnth m k) < rank) /\ rank <= qcnt (qnth m b) /\
  (b = (n - 1)%nat -> r = us (n - 2)%nat) /\
  ((b < n - 1)%nat -> b = 0%nat -> us 0%nat <= 0 -> r = us 0%nat) /\
  ((b < n - 1)%nat -> b = 0%nat -> 0 < us 0%nat -> 0 <= r /\ r <= us 0%nat) /\
  ((b < n - 1)%nat -> forall b', b = S b' -> us b' <= r /\ r <= us b).
Proof.
  intros Hwf Hq0 Hq1. cbv zeta.
  destruct (b_spec m us q Hwf Hq0 Hq1) as (A & B & C).
  split; [exact A|]. split; [exact B|]. split; [exact C|].
  split; [apply (in_last_bucket pinf m us q Hwf)|].
  pose proof (in_inner_bucket pinf m us q Hwf Hq0 Hq1) as H.
  split; [intros Hb; apply (proj1 (H Hb))|]. split; [intros Hb; apply (proj1 (proj2 (H Hb)))|].
  intros Hb. apply (proj2 (proj2 (H Hb))).
Qed.

(* the median of the example: rank 4, second bucket, 1 + (2 - 1) * (4 - 2) / (6 - 2) = 3/2 *)
Example quantile_example :
  rank_bucket (1 # 2) [mkB Q (Some 1) 2; mkB Q (Some 2) 6; mkB Q None 8] = 1%nat /\
  bq_core Q qops 0 (1 # 2) [mkB Q (Some 1) 2; mkB Q (Some 2) 6; mkB Q None 8] == 3 # 2.
Proof. split; vm_compute; reflexivity. Qed.

(* ---- on a histogram that is already sorted, merged and monotone the preprocessing of
   bucket_quantile changes nothing: bucket_quantile is bq_core ----------------------------------- *)

Inductive chain : list qbucket -> Prop :=
| chain_last c : chain [mkB Q None c]
| chain_cons u c b r : chain (b :: r) ->
    (match qub b with Some u' => u < u' | None => True end) -> c <= qcnt b ->
    chain (mkB Q (Some u) c :: b :: r).

Lemma qlt_false a b : a <= b -> RangeArith.ltb qops b a = false.
Proof. intros H. simpl. apply negb_false_iff. apply Qle_bool_iff. exact H. Qed.

Lemma chain_sorted m : chain m -> sort_b Q qops m = m.
Proof.
  induction 1 as [c|u c b r Hc IH Hu Hcnt]; [reflexivity|].
  change (sort_b Q qops (mkB Q (Some u) c :: b :: r)) with (insert_b Q qops (mkB Q (Some u) c) (sort_b Q qops (b :: r))).
  rewrite IH. cbn [insert_b].
  assert (E : ub_ltb Q qops (qub b) (Some u) = false).
  { destruct (qub b) as [u'|]; simpl; [|reflexivity]. apply negb_false_iff. apply Qle_bool_iff. apply Qlt_le_weak. exact Hu. }
  cbn [Bucket.ub]. rewrite E. reflexivity.
Qed.

Lemma chain_coalesced m : chain m -> coalesce Q qops m = m.
Proof.
  intros H. destruct m as [|x r]; [reflexivity|]. cbn [coalesce].
  revert x H. induction r as [|y r IH]; intros x H; [reflexivity|].
  assert (Hx : exists u c, x = mkB Q (Some u) c /\ chain (y :: r) /\ (match qub y with Some u' => u < u' | None => True end)).
  { inversion H; subst. eexists. eexists. split; [reflexivity|]. split; assumption. }
  destruct Hx as (u & c & -> & Hc & Hu). cbn [coalesce_from Bucket.ub].
  assert (E : ub_eqb Q qops (qub y) (Some u) = false).
  { destruct (qub y) as [u'|]; simpl; [|reflexivity].
    destruct (Qeq_bool u' u) eqn:E; [|reflexivity]. apply Qeq_bool_iff in E. rewrite E in Hu. exfalso. exact (Qlt_irrefl _ Hu). }
  rewrite E. f_equal. apply IH. exact Hc.
Qed.

Lemma chain_tail y z l : chain (y :: z :: l) -> chain (z :: l) /\ qcnt y <= qcnt z.
Proof. intros H. inversion H; subst. split; simpl; assumption. Qed.

Lemma chain_monotone m : chain m -> ensure_monotonic Q qops m = m.
Proof.
  intros H. destruct m as [|x r]; [reflexivity|]. cbn [ensure_monotonic]. f_equal.
  assert (G : forall l mx, (match l with [] => True | y :: _ => mx <= qcnt y end) -> (l = [] \/ chain l) -> mono_from Q qops mx l = l).
  { induction l as [|y l IH]; intros mx Hmx Hl; [reflexivity|]. cbn [mono_from].
    destruct Hl as [Hl|Hl]; [discriminate|].
    destruct (RangeArith.ltb qops mx (qcnt y)) eqn:E1.
    - f_equal. apply IH.
      + destruct l as [|z l']; [exact I|]. apply (chain_tail y z l' Hl).
      + destruct l as [|z l']; [left; reflexivity|]. right. apply (chain_tail y z l' Hl).
    - rewrite (qlt_false _ _ Hmx). f_equal. apply IH.
      + destruct l as [|z l']; [exact I|]. destruct (chain_tail y z l' Hl) as [_ Hyz].
        assert (Hym : qcnt y <= mx).
        { simpl in E1. apply negb_false_iff in E1. apply Qle_bool_iff in E1. exact E1. }
        assert (Hmy : mx <= qcnt y) by exact Hmx.
        eapply Qle_trans; [exact Hmy|exact Hyz].
      + destruct l as [|z l']; [left; reflexivity|]. right. apply (chain_tail y z l' Hl). }
  apply G.
  - destruct r as [|y r']; [exact I|]. apply (chain_tail x y r' H).
  - destruct r as [|y r']; [left; reflexivity|]. right. apply (chain_tail x y r' H).
Qed.

Lemma chain_last_inf m d : chain m -> qub (last m d) = None.
Proof.
  induction 1 as [c|u c b r Hc IH Hu Hcnt]; [reflexivity|].
  change (last (mkB Q (Some u) c :: b :: r) d) with (last (b :: r) d). exact IH.
Qed.

Theorem bucket_quantile_is_core pinf ninf q m : chain m -> 0 <= q -> q <= 1 ->
  bucket_quantile Q qops pinf ninf q m = bq_core Q qops pinf q m.
Proof.
  intros Hc Hq0 Hq1. unfold bucket_quantile.
  assert (E1 : isnan qops q = false) by reflexivity. rewrite E1.
  change (zero qops) with 0. change (one qops) with 1.
  rewrite (qlt_false _ _ Hq0), (qlt_false _ _ Hq1).
  rewrite (chain_sorted m Hc), (chain_last_inf m _ Hc), (chain_coalesced m Hc), (chain_monotone m Hc).
  destruct m as [|x r]; [inversion Hc|reflexivity].
Qed.

Example chain_example : chain [mkB Q (Some 1) 2; mkB Q (Some 2) 6; mkB Q None 8].
Proof. repeat constructor; simpl; unfold Qlt, Qle; simpl; lia. Qed.
